"""C10 — barycentric and dual-grid spaces represent the functions they claim to."""
import math
import os
from fractions import Fraction as F

# the sparse kernels use prange; the property does not depend on the thread count and the sandbox is shared
os.environ.setdefault("NUMBA_NUM_THREADS", "4")

from vlib.common import Result, run_driver, build_driver, GenError
from props import c10_gen

PID = "C10"
LEAN_MODULES = ["BemppVerif.Props.C10Tables", "BemppVerif.Props.C10"]
N = "BemppVerif.C10."
THEOREMS = [N + t for t in [
    "bary_subtriangles", "p1_nodal", "p1_bary_table_correct", "p1_bary_represents",
    "rwg_dof_mult_parallel", "snc_dof_mult_parallel", "rwg_bary_vertex_identity", "snc_bary_vertex_identity",
    "rwg_bary_table_correct", "snc_bary_table_correct", "dual0_nodal", "dual1_nodal", "mixed_mass_exact_partial",
]]
PARTIAL = {
    N + "mixed_mass_exact_partial": "stated per sub-triangle for two functions affine in the sub-triangle's reference coordinates and "
    "a rule with exact moments up to degree 2 (hypothesis; C12 tri_exact gives them to 1e-14); the sum over sub-triangles "
    "through local2global / dof_transformation (C13 sparse refinement) and BC/RBC coefficient patterns are not part of it — "
    "BC/RBC are covered by correspondence-free oracle checks only (pointwise mass matrices)",
    N + "dual1_nodal": "value 1/n at an n-valent vertex: the literal `1 / neighbour_count` is extracted (Tie A) and the dof lists "
    "are proved to sit on the right vertices; that neighbour_count is the valence and the loops over neighbours are "
    "compared with the real matrices on generated meshes (correspondence), not proved for all meshes",
}
TRUSTED = [
    "Tie A translator props/c10_gen.py (ast extraction of the 18 new_elements assignments, _EDGE_LOCAL, the P1/RWG/SNC 6x3 "
    "tables, local_coords, the length table of generate_rwg0_map, the evaluator scaling formula, DUAL0 formulas, DUAL1 lists)",
    "hand model lean/BemppVerif/Model/Bary.lean (reference coordinates of the sub-triangle vertices, reference shape "
    "functions, evaluator scaling) tied by differential comparison with the real barycentric grids, shapesets and "
    "dof_transformation matrices through the native driver",
    "|J(r v)| = |r| |J v| for the physical lengths of parallel reference segments and integration element of a sub-triangle = "
    "parent's times det M_s (classical, used as the meaning of the length atoms)",
    "the moments 1/2, 1/6, 1/12, 1/24 of the reference triangle are the exact integrals of the monomials of degree <= 2",
]
ASSUMPTIONS = ["oracle tolerances: pointwise 1e-12 * max(1, |value|), nodal values 1e-13, mass matrices 1e-10 * max|entry|"]
RULE = ("a case is non-trivial when the mesh is non-uniform (max/min edge length > 1.15 and at least 3 distinct element areas) "
        "and the coefficient vector is random with at least 2 distinct non-zero entries; pointwise cases are distinct by "
        "(mesh, space kind, options, coarse element, sub-triangle), matrix cases by (mesh, space kind, options)")

# ------------------------------------------------------------------------------------------------ generation

def generate(ctx):
    return c10_gen.generate()


# ------------------------------------------------------------------------------------------------ helpers

def _api():
    import bempp_cl.api as api
    return api


def _rat(x):
    fr = F(x)
    return f"{fr.numerator}/{fr.denominator}" if fr.denominator != 1 else str(fr.numerator)


class Model:
    """Answers of the Lean driver, parsed."""

    def __init__(self):
        build_driver()
        ans = run_driver(["bary sub", "bary p1", "bary piola rwg", "bary piola snc", "bary dual"])
        for a in ans:
            if not a.startswith("ok"):
                raise GenError(f"driver: {a[:80]}")
        t = ans[0].split()[1:]
        self.code = [[(int(t[4 * (3 * s + k)]), int(t[4 * (3 * s + k) + 1])) for k in range(3)] for s in range(6)]
        self.pt = [[(F(t[4 * (3 * s + k) + 2]), F(t[4 * (3 * s + k) + 3])) for k in range(3)] for s in range(6)]
        t = [F(x) for x in ans[1].split()[1:]]
        self.p1_model = [[[t[18 * i + 3 * s + k] for k in range(3)] for s in range(6)] for i in range(3)]
        self.p1_table = [[[t[54 + 18 * i + 3 * s + k] for k in range(3)] for s in range(6)] for i in range(3)]
        self.piola = {}
        for name, a in (("rwg", ans[2]), ("snc", ans[3])):
            t = [F(x) for x in a.split()[1:]]
            coeff = [[[t[2 * (18 * i + 3 * s + k)] for k in range(3)] for s in range(6)] for i in range(3)]
            ratio = [[t[2 * (3 * s + k) + 1] for k in range(3)] for s in range(6)]
            o = 108
            outer = [[(t[o + 4 * i], t[o + 4 * i + 1]), (t[o + 4 * i + 2], t[o + 4 * i + 3])] for i in range(3)]
            o = 120
            dm = [[[(t[o + 4 * (3 * s + k)], t[o + 4 * (3 * s + k) + 1]), (t[o + 4 * (3 * s + k) + 2], t[o + 4 * (3 * s + k) + 3])]
                   for k in range(3)] for s in range(6)]
            self.piola[name] = dict(coeff=coeff, ratio=ratio, outer=outer, dm=dm)
        t = ans[4].split()[1:]
        n = [int(x) for x in t[:49]]
        self.d0_model = [n[4 * v:4 * v + 2] for v in range(3)]
        self.d0_table = [n[4 * v + 2:4 * v + 4] for v in range(3)]
        m = n[12:30]
        tb = n[30:48]
        self.d1_model = dict(bary=m[:6], mid=[m[6 + 2 * i:8 + 2 * i] for i in range(3)], vert=[m[12 + 2 * i:14 + 2 * i] for i in range(3)])
        self.d1_table = dict(bary=tb[:6], mid=[tb[6 + 2 * i:8 + 2 * i] for i in range(3)], vert=[tb[12 + 2 * i:14 + 2 * i] for i in range(3)])
        self.d1_stride = n[48]
        self.d1_bary_value, self.d1_mid_value = F(t[49]), F(t[50])


def _mesh_stats(V, E):
    import numpy as np
    L, A = [], []
    for j in range(E.shape[1]):
        p = [V[:, int(E[i, j])] for i in range(3)]
        L += [np.linalg.norm(p[0] - p[1]), np.linalg.norm(p[1] - p[2]), np.linalg.norm(p[2] - p[0])]
        A.append(round(float(np.linalg.norm(np.cross(p[1] - p[0], p[2] - p[0]))), 9))
    return max(L) / min(L), len(set(A))


def _meshes(ctx, deep=False):
    """[(name, V, E, D, closed)], all perturbed (non-uniform), relabelled (random local vertex rotations).  Built once per
    run (correspondence, oracle and search see the same grids, so spaces are constructed once)."""
    import numpy as np
    from vlib import meshgen as mg
    cache = ctx.__dict__.setdefault("_c10_meshes", {})
    rng = ctx.rng

    def add(out, name, V, E, D, closed):
        V, E, D = mg.relabel(V, E, rng, D)
        out.append((name, np.asarray(V, float), np.asarray(E, np.uint32), np.asarray(D, np.uint32), closed))

    if "base" not in cache:
        out = []
        V, E = mg.cube(2)
        V = mg.perturb(V, 0.08, rng)
        # contiguous segments: one label per pair of cube faces (8 elements per face)
        add(out, "cube2", V, E, np.repeat(np.array([1, 2, 5, 1, 2, 5], dtype=np.uint32), 8), True)
        V, E = mg.screen(3, 2, wobble=0.08, rng=rng)
        V = mg.perturb(V, 0.05, rng)
        c = V[:, E.astype(int)].mean(axis=1)
        add(out, "screen32", V, E, np.where(c[0] < 0.5, 1, 2).astype(np.uint32), False)
        V, E = mg.octahedron()
        V = mg.perturb(V, 0.25, rng)
        c = V[:, E.astype(int)].mean(axis=1)
        add(out, "octa", V, E, np.where(c[2] > 0, 2, 5).astype(np.uint32), True)
        cache["base"] = out
    if not (deep or ctx.thorough):
        return cache["base"]
    if "extra" not in cache:
        out = []
        V, E = mg.icosahedron()
        V = mg.perturb(V, 0.2, rng)
        c = V[:, E.astype(int)].mean(axis=1)
        add(out, "icosa", V, E, np.where(c[0] > 0.2, 1, np.where(c[1] > 0, 2, 5)).astype(np.uint32), True)
        V, E = mg.lshape()
        V = mg.perturb(V, 0.1, rng)
        c = V[:, E.astype(int)].mean(axis=1)
        add(out, "lshape", V, E, np.where(c[0] > 1.0, 1, 2).astype(np.uint32), True)
        cache["extra"] = out
    return cache["base"] + cache["extra"]


_GRIDS = {}
_SPACES = {}


def _grid(name, V, E, D):
    """one Grid object per mesh (keyed by the data, so a different seed / replay never reuses a stale grid)."""
    key = (name, V.tobytes(), E.tobytes(), D.tobytes())
    if key not in _GRIDS:
        _GRIDS[key] = _api().Grid(V, E, D)
    return _GRIDS[key]


OPTSETS = {
    "full": {},
    "seg": {"segments": [2, 5]},
    "seg+b": {"segments": [2, 5], "include_boundary_dofs": True},
    "seg+b+ext": {"segments": [2, 5], "include_boundary_dofs": True, "truncate_at_segment_edge": False},
    "seg1": {"segments": [1]},
    # normals swapped on SOME elements only (seed C10-d: numpy.tile instead of numpy.repeat for the barycentric normal
    # multipliers is invisible while all multipliers are equal)
    "swap": {"swapped_normals": [2]},
    "seg+swap": {"segments": [2, 5], "swapped_normals": [2]},
    "seg+trunc": {"segments": [2, 5], "truncate_at_segment_edge": True},
    "seg-ext": {"segments": [2, 5], "truncate_at_segment_edge": False},
}


def _space(grid, kind, deg, opts):
    """function_space with a per-process cache (spaces are immutable for our purposes); exceptions are not cached."""
    import json
    key = (id(grid), kind, deg, json.dumps(opts, sort_keys=True))
    if key not in _SPACES:
        _SPACES[key] = (grid, _api().function_space(grid, kind, deg, **opts))
    return _SPACES[key][1]


def _phys(V3, pts):
    """physical points of the triangle with vertex matrix V3 (3x3, columns = vertices) at reference points (2xn)."""
    return V3[:, [0]] + (V3[:, [1]] - V3[:, [0]]) * pts[0] + (V3[:, [2]] - V3[:, [0]]) * pts[1]


def _local(V3, X):
    """reference coordinates in the triangle V3 of physical points X (3xn) by least squares."""
    import numpy as np
    A = np.stack([V3[:, 1] - V3[:, 0], V3[:, 2] - V3[:, 0]], axis=1)
    return np.linalg.lstsq(A, X - V3[:, [0]], rcond=None)[0]


def _rand_pts(rng, n):
    import numpy as np
    pts = []
    for _ in range(n):
        a, b = rng.uniform(0.02, 0.96), rng.uniform(0.02, 0.96)
        if a + b > 0.98:
            a, b = 0.98 - a, 0.98 - b
        pts.append((a, b))
    return np.array(pts).T


def _coeffs(rng, n):
    import numpy as np
    return np.array([rng.choice((-1, 1)) * rng.uniform(0.2, 1.0) for _ in range(n)])


# ------------------------------------------------------------------------------------------------ correspondence

def _frac(x, maxden=64):
    fr = F(float(x)).limit_denominator(maxden)
    return fr if abs(float(fr) - float(x)) <= 4e-16 * max(1.0, abs(float(x))) else None


def _coarse_map(sp):
    """real structure of the coarse space: list over support position of [(global dof, multiplier)] per local dof."""
    return [[(int(sp.local2global[e, i]), float(sp.local_multipliers[e, i])) for i in range(sp.local2global.shape[1])]
            for e in sp.support_elements]


def _predict_block(sp, nrows_per_elem, block):
    """rows 18*idx + r (or 6*idx + r), columns global dofs: sum_i block(idx, e)[r][i] * mult_i at column l2g_i."""
    import numpy as np
    cm = _coarse_map(sp)
    P = np.zeros((nrows_per_elem * len(cm), sp.global_dof_count))
    for idx, e in enumerate(sp.support_elements):
        B = block(idx, int(e))
        for i, (d, m) in enumerate(cm[idx]):
            if m != 0:
                P[nrows_per_elem * idx:nrows_per_elem * (idx + 1), d] += m * B[:, i]
    return P


def correspondence(ctx):
    import numpy as np
    res = Result()
    try:
        M = Model()
    except (GenError, RuntimeError) as e:
        res.disagree("model driver unavailable", error=str(e)[:300])
        return res
    api = _api()
    rng = ctx.rng
    # 0. model-internal consistency of what the driver reports (tables vs geometric model); a mismatch here means a
    #    table theorem is false as well -- reported as a disagreement between table (code) and model
    if M.p1_model != M.p1_table:
        bad = [(i, s, k) for i in range(3) for s in range(6) for k in range(3) if M.p1_model[i][s][k] != M.p1_table[i][s][k]]
        res.disagree("P1 table differs from the values of the coarse shape functions at the sub-triangle vertices",
                     first=bad[0], count=len(bad), table=str(M.p1_table[bad[0][0]][bad[0][1]][bad[0][2]]),
                     model=str(M.p1_model[bad[0][0]][bad[0][1]][bad[0][2]]))
    if [sorted(r) for r in M.d0_model] != [sorted(r) for r in M.d0_table]:
        res.disagree("DUAL0 sub-triangle formulas do not address the sub-triangles at the vertex", table=M.d0_table, model=M.d0_model)
    for key in ("bary", "mid", "vert"):
        a, b = M.d1_model[key], M.d1_table[key]
        na = sorted(a) if key == "bary" else [sorted(r) for r in a]
        nb = sorted(b) if key == "bary" else [sorted(r) for r in b]
        if na != nb:
            res.disagree(f"DUAL1 {key} dof list does not address the dofs that sit there", table=b, model=a)
    res.case(("model-tables",), nontrivial=False)
    # 1. shapesets at dyadic points (exact)
    from bempp_cl.api.space import shapesets as shp
    pts = [(F(rng.randrange(0, 17), 16), F(rng.randrange(0, 17), 16)) for _ in range(ctx.pick(6, 30))]
    reqs = [f"bary shape {k} {_rat(x)} {_rat(y)}" for k in ("p1", "rwg") for x, y in pts]
    ans = run_driver(reqs)
    arr = np.array([[float(x) for x, _ in pts], [float(y) for _, y in pts]])
    p1v = shp._p1_disc_shapeset_evaluate(arr)
    rwv = shp._rwg0_shapeset_evaluate(arr)
    for j, (x, y) in enumerate(pts):
        t = [F(v) for v in ans[j].split()[1:]]
        if [F(float(p1v[0, i, j])) for i in range(3)] != t:
            res.disagree("p1 shapeset", point=[str(x), str(y)], impl=p1v[0, :, j].tolist(), model=[str(v) for v in t])
        t = [F(v) for v in ans[len(pts) + j].split()[1:]]
        if [F(float(rwv[c, i, j])) for i in range(3) for c in range(2)] != t:
            res.disagree("rwg0 shapeset", point=[str(x), str(y)], impl=rwv[:, :, j].tolist(), model=[str(v) for v in t])
        res.case(("shape", str(x), str(y)), nontrivial=False)
    worst = dict(subvertex=0.0, p1=0.0, dp0=0.0, piola=0.0, dual=0.0, submap=0.0)
    for name, V, E, D, closed in _meshes(ctx):
        g = _grid(name, V, E, D)
        ratio_l, nareas = _mesh_stats(V, E)
        nonuni = ratio_l > 1.15 and nareas >= 3
        bg = g.barycentric_refinement
        nv, ne = g.number_of_vertices, g.number_of_elements
        # 2. sub-triangle vertices and codes on the real barycentric grid
        if bg.number_of_elements != 6 * ne:
            res.disagree("barycentric element count", mesh=name, impl=bg.number_of_elements, model=6 * ne)
            continue
        if not np.array_equal(bg.domain_indices, np.repeat(g.domain_indices, 6)):
            res.disagree("barycentric domain indices are not the parent's repeated 6 times", mesh=name)
        eta = _rand_pts(rng, 1)
        reqs = [f"bary map {s} {_rat(F(float(eta[0, 0])))} {_rat(F(float(eta[1, 0])))}" for s in range(6)]
        maps = [[float(F(v)) for v in a.split()[1:]] for a in run_driver(reqs)]
        for e in range(ne):
            CV = g.vertices[:, g.elements[:, e]]
            h = np.linalg.norm(CV[:, 1] - CV[:, 0])
            for s in range(6):
                b = 6 * e + s
                for k in range(3):
                    w = int(bg.elements[k, b])
                    kind, idx = M.code[s][k]
                    x = _phys(CV, np.array([[float(M.pt[s][k][0])], [float(M.pt[s][k][1])]]))[:, 0]
                    err = np.linalg.norm(bg.vertices[:, w] - x) / h
                    worst["subvertex"] = max(worst["subvertex"], err)
                    ok = err < 1e-14
                    if kind == 0:
                        ok = ok and w == int(g.elements[idx, e])
                    else:
                        ok = ok and w >= nv
                    if not ok:
                        res.disagree("sub-triangle vertex", mesh=name, element=e, sub=s, local=k, model_code=[kind, idx],
                                     impl_vertex=w, rel_error=float(err))
                # affine map of the sub-triangle
                xb = _phys(bg.vertices[:, bg.elements[:, b]], eta)[:, 0]
                xc = _phys(CV, np.array([[maps[s][0]], [maps[s][1]]]))[:, 0]
                err = np.linalg.norm(xb - xc) / h
                worst["submap"] = max(worst["submap"], err)
                if err > 1e-14:
                    res.disagree("sub-triangle affine map", mesh=name, element=e, sub=s, rel_error=float(err))
                res.case(("sub", name, e, s), nontrivial=nonuni)
        # 3. dof_transformation of the barycentric representations
        optkeys = (["full", "seg", "seg+b", "seg+b+ext", "swap", "seg+swap"] if ctx.thorough
                   else ["full", rng.choice(["seg", "seg+b"]), "seg+b+ext", rng.choice(["swap", "seg+swap"])])
        for kind, deg in (("P", 1), ("DP", 0), ("RWG", 0), ("SNC", 0)):
            for ok_ in optkeys:
                opts = OPTSETS[ok_]
                try:
                    sp = _space(g, kind, deg, opts)
                except Exception as ex:  # noqa
                    res.notes.append(f"{kind}{deg} {ok_} on {name}: {type(ex).__name__}: {str(ex)[:80]}")
                    continue
                if sp.global_dof_count == 0 or sp.number_of_support_elements == 0:
                    continue
                bs = sp.barycentric_representation()
                T = bs.dof_transformation.toarray()
                sup = [int(e) for e in sp.support_elements]
                exp_support = np.zeros(6 * ne, dtype=bool)
                for e in sup:
                    exp_support[6 * e:6 * e + 6] = True
                if not np.array_equal(bs.support, exp_support):
                    res.disagree("barycentric support is not 6e..6e+5 of the coarse support", mesh=name, space=kind + str(deg), opts=ok_)
                    continue
                nshape = bs.local2global.shape[1]
                l2g = np.zeros((6 * ne, nshape), dtype=np.int64)
                l2g[exp_support] = np.arange(nshape * 6 * len(sup)).reshape(6 * len(sup), nshape)
                if not (np.array_equal(bs.local2global.astype(np.int64), l2g) and
                        np.array_equal(bs.local_multipliers[exp_support], np.ones((6 * len(sup), nshape))) and
                        np.array_equal(bs.normal_multipliers, np.repeat(sp.normal_multipliers, 6))):
                    res.disagree("barycentric local2global / multipliers / normal multipliers", mesh=name, space=kind + str(deg), opts=ok_)
                if kind == "DP":
                    P = _predict_block(sp, 6, lambda idx, e: np.ones((6, 1)))
                    tol, wk = 0.0, "dp0"
                elif kind == "P":
                    B = np.array([[float(M.p1_model[i][s][k]) for i in range(3)] for s in range(6) for k in range(3)])
                    P = _predict_block(sp, 18, lambda idx, e: B)
                    tol, wk = 1e-15, "p1"
                else:
                    pm = M.piola["rwg" if kind == "RWG" else "snc"]

                    def block(idx, e, pm=pm):
                        CV = g.vertices[:, g.elements[:, e]]

                        def length(seg):
                            q = _phys(CV, np.array([[float(seg[0][0]), float(seg[1][0])], [float(seg[0][1]), float(seg[1][1])]]))
                            return np.linalg.norm(q[:, 0] - q[:, 1])
                        Bm = np.zeros((18, 3))
                        for i in range(3):
                            lo = length(pm["outer"][i])
                            for s in range(6):
                                for k in range(3):
                                    Bm[3 * s + k, i] = float(pm["coeff"][i][s][k]) * lo / length(pm["dm"][s][k])
                        return Bm
                    P = _predict_block(sp, 18, block)
                    tol, wk = 1e-13, "piola"
                if T.shape != P.shape:
                    res.disagree("dof_transformation shape", mesh=name, space=kind + str(deg), opts=ok_, impl=list(T.shape), model=list(P.shape))
                    continue
                err = np.abs(T - P) / np.maximum(1.0, np.abs(P))
                worst[wk] = max(worst[wk], float(err.max()))
                if err.max() > tol:
                    r, c = np.unravel_index(np.argmax(err), err.shape)
                    res.disagree("dof_transformation entry", mesh=name, space=kind + str(deg), opts=ok_, row=int(r), col=int(c),
                                 support_position=int(r // (T.shape[0] // len(sup))), sub=int((r % (T.shape[0] // len(sup))) // nshape),
                                 impl=float(T[r, c]), model=float(P[r, c]))
                if kind == "P":
                    # exact rationals
                    nz = T[np.abs(T) > 0]
                    if any(_frac(v, 6) is None for v in nz[:2000]):
                        res.disagree("P1 dof_transformation entry is not a rational with denominator <= 6", mesh=name, opts=ok_)
                res.case(("dofT", name, kind, ok_), nontrivial=nonuni,
                         sample=dict(kind="dof_transformation", mesh=name, space=kind + str(deg), opts=ok_, shape=list(T.shape),
                                     edge_ratio=round(float(ratio_l), 3)))
        # 4. DUAL0 / DUAL1 matrices from the model's vertex incidences and the real grid topology
        dkeys = ["full", "seg", "seg+trunc", "seg+b", "seg+b+ext"] if ctx.thorough else ["full", rng.choice(["seg", "seg+b"]), "seg+trunc"]
        for ok_ in dkeys:
            opts = OPTSETS[ok_]
            for deg in (0, 1):
                o = dict(opts)
                if deg == 1:
                    o.pop("include_boundary_dofs", None)
                try:
                    sp = _space(g, "DUAL", deg, o)
                except Exception as ex:  # noqa
                    res.disagree("DUAL space construction raised", mesh=name, degree=deg, opts=ok_, error=f"{type(ex).__name__}: {str(ex)[:100]}")
                    continue
                T = sp.dof_transformation.toarray()
                P = _predict_dual(g, deg, o, M)
                if P is None:
                    continue
                if T.shape != P.shape:
                    res.disagree("DUAL dof_transformation shape", mesh=name, degree=deg, opts=ok_, impl=list(T.shape), model=list(P.shape))
                    continue
                err = np.abs(T - P)
                worst["dual"] = max(worst["dual"], float(err.max()) if err.size else 0.0)
                if err.size and err.max() > 1e-15:
                    r, c = np.unravel_index(np.argmax(err), err.shape)
                    per = 6 if deg == 0 else 18
                    res.disagree("DUAL dof_transformation entry", mesh=name, degree=deg, opts=ok_, row=int(r), col=int(c),
                                 support_position=int(r // per), local=int(r % per), impl=float(T[r, c]), model=float(P[r, c]))
                res.case(("dualT", name, deg, ok_), nontrivial=nonuni,
                         sample=dict(kind="dual dof_transformation", mesh=name, degree=deg, opts=ok_, shape=list(T.shape)))
    for k, v in worst.items():
        res.stats["corr_worst_" + k] = v
    return res


def _predict_dual(g, deg, opts, M):
    """dof_transformation of DUAL0 / DUAL1 predicted from the model's incidences (which local dofs / sub-triangles sit on
    which vertex of the element) and the grid topology; the primal dof structure is taken from the real P1 / DP0 space."""
    import numpy as np
    api = _api()
    ne = g.number_of_elements
    trunc = opts.get("truncate_at_segment_edge", False)
    if deg == 0:
        o = dict(opts)
        o.setdefault("include_boundary_dofs", False)
        o.setdefault("truncate_at_segment_edge", False)
        p1 = _space(g, "P", 1, o)
        sup = [int(e) for e in p1.support_elements]
        P = np.zeros((6 * len(sup), p1.global_dof_count))
        for fn, f in enumerate(sup):
            for j in range(3):
                if p1.local_multipliers[f, j] != 0:
                    for s in M.d0_model[j]:
                        P[6 * fn + s, int(p1.local2global[f, j])] = 1
        return P
    o = {k: v for k, v in opts.items() if k in ("segments", "support_elements", "swapped_normals")}
    dp = _space(g, "DP", 0, o)
    base = [int(e) for e in dp.support_elements]
    elems = g.elements.astype(np.int64)
    vert_elems = {}
    for e in range(ne):
        for j in range(3):
            vert_elems.setdefault(int(elems[j, e]), []).append(e)
    support = set(base)
    if not trunc:
        for e in base:
            for j in range(3):
                support.update(vert_elems[int(elems[j, e])])
    sup = sorted(support)
    pos = {e: i for i, e in enumerate(sup)}
    P = np.zeros((18 * len(sup), dp.global_dof_count))
    ee = g.element_edges.astype(np.int64)
    for gdof in range(dp.global_dof_count):
        E = int(dp.global2local[gdof][0][0])
        if E in pos:
            for n in M.d1_model["bary"]:
                P[18 * pos[E] + n, gdof] = float(M.d1_bary_value)
        for i in range(3):
            edge = int(ee[i, E])
            for Nn in sup:
                for j in range(3):
                    if int(ee[j, Nn]) == edge:
                        for n in M.d1_model["mid"][j]:
                            P[18 * pos[Nn] + n, gdof] = float(M.d1_mid_value)
        for i in range(3):
            v = int(elems[i, E])
            val = 1.0 / len(vert_elems[v])
            for Nn in vert_elems[v]:
                if Nn in pos:
                    j = [int(x) for x in elems[:, Nn]].index(v)
                    for n in M.d1_model["vert"][j]:
                        P[18 * pos[Nn] + n, gdof] = val
    return P


# ------------------------------------------------------------------------------------------------ oracle

# 7-point rule of degree 5 on the reference triangle (Radon), weights sum to 1/2
def _radon7():
    import numpy as np
    s15 = math.sqrt(15.0)
    a1, a2 = (6 - s15) / 21, (6 + s15) / 21
    w1, w2 = (155 - s15) / 2400, (155 + s15) / 2400
    pts = [(1 / 3, 1 / 3)] + [(a1, a1), (1 - 2 * a1, a1), (a1, 1 - 2 * a1)] + [(a2, a2), (1 - 2 * a2, a2), (a2, 1 - 2 * a2)]
    w = [9 / 80] + [w1] * 3 + [w2] * 3
    return np.array(pts).T, np.array(w)


def _pointwise(ctx, res, g, name, nonuni, kind, deg, ok_, npts, worst):
    import numpy as np
    api = _api()
    rng = ctx.rng
    opts = OPTSETS[ok_]
    try:
        sp = _space(g, kind, deg, opts)
    except Exception as ex:  # noqa
        res.notes.append(f"{kind}{deg} {ok_} on {name}: {type(ex).__name__}: {str(ex)[:80]}")
        return
    if sp.global_dof_count == 0:
        return
    bs = sp.barycentric_representation()
    c = _coeffs(rng, sp.global_dof_count)
    f = api.GridFunction(sp, coefficients=c)
    fb = api.GridFunction(bs, coefficients=c)
    bg = g.barycentric_refinement
    random_c = len(set(np.round(c[c != 0], 12))) >= 2
    first = None
    for e in (int(x) for x in sp.support_elements):
        CV = g.vertices[:, g.elements[:, e]]
        for s in range(6):
            b = 6 * e + s
            eta = _rand_pts(rng, npts)
            X = _phys(bg.vertices[:, bg.elements[:, b]], eta)
            xi = _local(CV, X)
            vc = f.evaluate(e, xi)
            vb = fb.evaluate(b, eta)
            scale = max(1.0, float(np.abs(vc).max()))
            err = float(np.abs(vc - vb).max()) / scale
            worst[kind] = max(worst.get(kind, 0.0), err)
            res.case(("pw", name, kind, ok_, e, s), nontrivial=nonuni and random_c)
            if err > 1e-12 and first is None:
                j = int(np.argmax(np.abs(vc - vb).max(axis=0)))
                first = dict(mesh=name, space=f"{kind}{deg}", opts=ok_, element=e, sub=s, bary_element=b,
                             eta=eta[:, j].tolist(), xi=xi[:, j].tolist(), coarse=vc[:, j].tolist(), barycentric=vb[:, j].tolist(),
                             error=err, coefficients=c.tolist(), vertices=g.vertices.tolist(), elements=g.elements.tolist(),
                             domain_indices=g.domain_indices.tolist())
    if first is not None:
        res.counterexample(f"bary-pointwise-{kind.lower()}{deg}",
                           f"{kind}{deg} function and its barycentric representation differ at a point of sub-triangle "
                           f"{first['sub']} of element {first['element']} of mesh {name} ({ok_}): {first['coarse']} vs "
                           f"{first['barycentric']}", **first)
    if len(res.samples) < 6:
        res.samples.append(dict(kind="pointwise", mesh=name, space=f"{kind}{deg}", opts=ok_, dofs=int(sp.global_dof_count),
                                support=int(sp.number_of_support_elements), worst=worst.get(kind)))


def _classify_bary_vertices(g, bg):
    """model-free classification of the vertices of the barycentric grid by their coordinates: ('v', vertex) |
    ('c', element) | ('m', (a, b)) with a < b the vertices of the coarse edge."""
    import numpy as np
    nv = g.number_of_vertices
    elems = g.elements.astype(np.int64)
    ne = elems.shape[1]
    hmin = min(np.linalg.norm(g.vertices[:, elems[0, e]] - g.vertices[:, elems[1, e]]) for e in range(ne))
    cent = g.vertices[:, elems].mean(axis=1)
    keys, mids = [], []
    seen = set()
    for e in range(ne):
        for a, b_ in ((0, 1), (1, 2), (2, 0)):
            key = tuple(sorted((int(elems[a, e]), int(elems[b_, e]))))
            if key not in seen:
                seen.add(key)
                keys.append(key)
                mids.append(0.5 * (g.vertices[:, key[0]] + g.vertices[:, key[1]]))
    mids = np.array(mids).T
    cls = {}
    for w in range(bg.number_of_vertices):
        if w < nv:
            cls[w] = ("v", w)
            continue
        x = bg.vertices[:, [w]]
        dc = np.linalg.norm(cent - x, axis=0)
        dm_ = np.linalg.norm(mids - x, axis=0)
        if dc.min() < 1e-9 * hmin:
            cls[w] = ("c", int(np.argmin(dc)))
        elif dm_.min() < 1e-9 * hmin:
            cls[w] = ("m", keys[int(np.argmin(dm_))])
        else:
            cls[w] = ("?", w)
    return cls


def _dual_nodal(ctx, res, g, name, nonuni, closed, ok_, worst):
    """nodal values of every DUAL0 / DUAL1 basis function on the real code, against the geometric definition."""
    import numpy as np
    opts = OPTSETS[ok_]
    bg = g.barycentric_refinement
    nv, ne = g.number_of_vertices, g.number_of_elements
    elems = g.elements.astype(np.int64)
    valence = np.bincount(elems.ravel(), minlength=nv)
    corners = np.array([[0.0, 1.0, 0.0], [0.0, 0.0, 1.0]])
    centre = np.array([[1 / 3], [1 / 3]])
    trunc = opts.get("truncate_at_segment_edge", False)
    geo = dict(vertices=g.vertices.tolist(), elements=g.elements.tolist(), domain_indices=g.domain_indices.tolist())
    # ---- DUAL0: indicator of the dual cell of a vertex
    sp = None
    try:
        sp = _space(g, "DUAL", 0, opts)
        o = dict(opts)
        o.setdefault("include_boundary_dofs", False)
        o.setdefault("truncate_at_segment_edge", False)
        p1 = _space(g, "P", 1, o)
    except Exception as ex:  # noqa
        res.counterexample("dual0-raises", f"DUAL0 space ({ok_}) on mesh {name} raises {type(ex).__name__}: {str(ex)[:100]}",
                           mesh=name, opts=ok_, **geo)
        sp = None
    if sp is not None and sp.global_dof_count > 0:
        expected_sup = sorted(int(x) for x in p1.support_elements)
        got_sup = sorted({int(b) // 6 for b in sp.support_elements})
        bad = None
        if got_sup != expected_sup or len(sp.support_elements) != 6 * len(expected_sup):
            bad = dict(what="support", expected=expected_sup, got=got_sup)
        Tm = sp.dof_transformation.toarray()
        for b in (int(x) for x in sp.support_elements):
            if bad:
                break
            vals = float(sp.evaluate(b, centre)[0, 0, 0]) * Tm[int(sp.local2global[b, 0])]
            e = b // 6
            tri = [int(x) for x in bg.elements[:, b]]
            exp = np.zeros(sp.global_dof_count)
            for j in range(3):
                # the dof of the primal space (C09) at local vertex j of e, if the sub-triangle touches that vertex
                if int(elems[j, e]) in tri and p1.local_multipliers[e, j] != 0:
                    exp[int(p1.local2global[e, j])] = 1.0
            dev = np.abs(vals - exp)
            worst["dual0"] = max(worst.get("dual0", 0.0), float(dev.max()))
            res.case(("d0", name, ok_, b), nontrivial=nonuni)
            if dev.max() > 1e-13:
                d = int(np.argmax(dev))
                bad = dict(what="value", dof=d, bary_element=b, element=e, sub=b % 6, value=float(vals[d]), expected=float(exp[d]))
        if bad:
            res.counterexample("dual0-nodal-values", f"DUAL0 ({ok_}) on mesh {name}: basis function is not the indicator of the "
                               f"dual cell of its vertex: {bad}", mesh=name, opts=ok_,
                               **{k: v for k, v in bad.items() if k != 'what'}, **geo)
    # ---- DUAL1: continuous piecewise linear on the barycentric grid with the documented nodal values
    o1 = {k: v for k, v in opts.items() if k != "include_boundary_dofs"}
    try:
        sp = _space(g, "DUAL", 1, o1)
        dp = _space(g, "DP", 0, {k: v for k, v in o1.items() if k != "truncate_at_segment_edge"})
    except Exception as ex:  # noqa
        res.counterexample("dual1-raises", f"DUAL1 space ({ok_}) on mesh {name} raises {type(ex).__name__}: {str(ex)[:100]}",
                           mesh=name, opts=ok_, **geo)
        return
    if sp.global_dof_count == 0:
        return
    ndof = sp.global_dof_count
    Tm = sp.dof_transformation.toarray()
    base = [int(e) for e in dp.support_elements]
    esup = set(base)
    if not trunc:
        for e in base:
            for j in range(3):
                esup.update(int(x) for x in np.flatnonzero((elems == elems[j, e]).any(axis=0)))
    got_sup = sorted({int(b) // 6 for b in sp.support_elements})
    bad = None
    if got_sup != sorted(esup) or len(sp.support_elements) != 6 * len(esup):
        bad = dict(what="support", expected=sorted(esup), got=got_sup)
    cls = getattr(g, "_c10_cls", None)
    if cls is None:
        cls = _classify_bary_vertices(g, bg)
        try:
            g._c10_cls = cls
        except Exception:  # noqa
            pass
    dof_elem = [int(dp.global2local[d][0][0]) for d in range(ndof)]
    # expected nodal value of every basis function at every vertex of the barycentric grid
    expw = {}

    def expected(w):
        if w not in expw:
            kind, what = cls[w]
            v = np.zeros(ndof)
            for d, E in enumerate(dof_elem):
                ev = [int(x) for x in elems[:, E]]
                if kind == "v" and what in ev:
                    v[d] = 1.0 / valence[what]
                elif kind == "c" and what == E:
                    v[d] = 1.0
                elif kind == "m" and what[0] in ev and what[1] in ev:
                    v[d] = 0.5
            expw[w] = v
        return expw[w]
    sums = []
    for b in (int(x) for x in sp.support_elements):
        if bad:
            break
        loc = sp.evaluate(b, corners)[0]  # nshape x 3 points
        vals = loc.T @ Tm[sp.local2global[b].astype(np.int64)]  # 3 points x ndof
        res.case(("d1", name, ok_, b), nontrivial=nonuni)
        for k in range(3):
            w = int(bg.elements[k, b])
            exp = expected(w)
            dev = np.abs(vals[k] - exp)
            worst["dual1"] = max(worst.get("dual1", 0.0), float(dev.max()))
            sums.append(float(vals[k].sum()))
            if dev.max() > 1e-13:
                d = int(np.argmax(dev))
                bad = dict(what="value", dof=d, coarse_element_of_dof=dof_elem[d], bary_element=b, element=b // 6, sub=b % 6,
                           local_vertex=k, bary_vertex=w, vertex_kind=cls[w][0], value=float(vals[k][d]), expected=float(exp[d]))
                break
    if bad is None and ok_ == "full" and closed:
        # partition of unity at every node of a closed grid
        dev = max(abs(v - 1.0) for v in sums)
        worst["dual1_sum"] = max(worst.get("dual1_sum", 0.0), dev)
        if dev > 1e-13:
            bad = dict(what="sum", deviation=dev)
    if bad:
        res.counterexample("dual1-nodal-values", f"DUAL1 ({ok_}) on mesh {name}: nodal values are not 1 at the own barycentre, 1/2 at "
                           f"edge midpoints, 1/n at n-valent vertices: {bad}", mesh=name, opts=ok_,
                           **{k: v for k, v in bad.items() if k != 'what'}, **geo)


def _global_basis_table(sp, g, bg, pts):
    """values of every global basis function of `sp` at the points `pts` (reference coordinates of the barycentric
    elements) of every barycentric element: dict bary element -> array (dim, ndofs, npts); evaluated through the real
    evaluators of the space on its own grid."""
    import numpy as np
    out = {}
    ndof = sp.global_dof_count
    if sp.is_barycentric:
        Tm = sp.dof_transformation.toarray()
        for b in (int(x) for x in sp.support_elements):
            loc = sp.evaluate(b, pts)  # dim, nshape, npts
            rows = Tm[sp.local2global[b]]  # nshape x ndof
            out[b] = np.einsum("dsp,sn->dnp", loc, rows)
    else:
        Tm = sp.dof_transformation.toarray() if sp.requires_dof_transformation else None
        for e in (int(x) for x in sp.support_elements):
            CV = g.vertices[:, g.elements[:, e]]
            for s in range(6):
                b = 6 * e + s
                X = _phys(bg.vertices[:, bg.elements[:, b]], pts)
                xi = _local(CV, X)
                loc = sp.evaluate(e, xi)
                rows = np.zeros((loc.shape[1], sp.grid_dof_count))
                for i in range(loc.shape[1]):
                    rows[i, int(sp.local2global[e, i])] = 1.0
                if Tm is not None:
                    rows = rows @ Tm
                out[b] = np.einsum("dsp,sn->dnp", loc, rows[:, :ndof] if Tm is None else rows)
    return out


def _mass(ctx, res, g, name, nonuni, dom, dual, ok_, worst):
    import numpy as np
    api = _api()
    opts = OPTSETS[ok_]

    def mk(kd):
        kind, deg = kd
        o = dict(opts)
        if kind in ("DP",) or (kind, deg) == ("DUAL", 1):
            o.pop("include_boundary_dofs", None)
        if kind == "DP":
            o.pop("truncate_at_segment_edge", None)
        return _space(g, kind, deg, o)
    label = f"{dom[0]}{dom[1]}-{dual[0]}{dual[1]}"
    try:
        sd, st = mk(dom), mk(dual)
    except Exception as ex:  # noqa
        res.notes.append(f"mass {label} {ok_} on {name}: space construction {type(ex).__name__}: {str(ex)[:80]}")
        return
    if sd.global_dof_count == 0 or st.global_dof_count == 0:
        return
    try:
        A = api.operators.boundary.sparse.identity(sd, sd, st).weak_form().to_sparse().toarray()
    except Exception as ex:  # noqa
        res.counterexample(f"mixed-mass-raises-{label}", f"identity({label}) ({ok_}) on mesh {name} raises {type(ex).__name__}: "
                           f"{str(ex)[:120]}", mesh=name, opts=ok_, vertices=g.vertices.tolist(), elements=g.elements.tolist(),
                           domain_indices=g.domain_indices.tolist())
        return
    bg = g.barycentric_refinement
    pts, w = _radon7()
    td = _global_basis_table(sd, g, bg, pts)
    tt = _global_basis_table(st, g, bg, pts)
    R = np.zeros((st.global_dof_count, sd.global_dof_count))
    for b in td:
        if b not in tt:
            continue
        BV = bg.vertices[:, bg.elements[:, b]]
        ie = np.linalg.norm(np.cross(BV[:, 1] - BV[:, 0], BV[:, 2] - BV[:, 0]))
        R += ie * np.einsum("dtp,dnp,p->tn", tt[b], td[b], w)
    if A.shape != R.shape:
        res.counterexample(f"mixed-mass-{label}", f"identity({label}) ({ok_}) on mesh {name} has shape {A.shape}, expected {R.shape}",
                           mesh=name, opts=ok_)
        return
    scale = max(float(np.abs(R).max()), 1e-300)
    err = float(np.abs(A - R).max()) / scale
    worst["mass"] = max(worst.get("mass", 0.0), err)
    res.case(("mass", name, label, ok_), nontrivial=nonuni,
             sample=dict(kind="mixed mass", mesh=name, pair=label, opts=ok_, shape=list(A.shape), rel_error=err))
    if err > 1e-10:
        r, c = np.unravel_index(np.argmax(np.abs(A - R)), A.shape)
        res.counterexample(f"mixed-mass-{label}", f"mass matrix <{label}> ({ok_}) on mesh {name}: entry ({r},{c}) is {A[r, c]!r}, "
                           f"degree-5 quadrature of the product of the two basis functions gives {R[r, c]!r}", mesh=name, opts=ok_,
                           row=int(r), col=int(c), assembled=float(A[r, c]), reference=float(R[r, c]), rel_error=err,
                           vertices=g.vertices.tolist(), elements=g.elements.tolist(), domain_indices=g.domain_indices.tolist())


def oracle(ctx, deep=False):
    import numpy as np
    res = Result()
    api = _api()
    deep = deep or ctx.thorough
    rng = ctx.rng
    worst = {}
    meshes = _meshes(ctx, deep)
    for name, V, E, D, closed in meshes:
        g = _grid(name, V, E, D)
        ratio_l, nareas = _mesh_stats(V, E)
        nonuni = ratio_l > 1.15 and nareas >= 3
        res.stats.setdefault("meshes", {})[name] = dict(elements=int(E.shape[1]), closed=closed, edge_ratio=round(float(ratio_l), 3),
                                                         distinct_areas=int(nareas))
        # (1) pointwise agreement of a function and its barycentric representation
        keys = (["full", "seg", "seg+b", "seg+b+ext", "seg1", "swap", "seg+swap"] if deep
                else ["full", rng.choice(["seg", "seg+b", "seg+b+ext"]), rng.choice(["swap", "seg+swap"])])
        for kind, deg in (("P", 1), ("DP", 0), ("RWG", 0), ("SNC", 0)):
            for ok_ in keys:
                _pointwise(ctx, res, g, name, nonuni, kind, deg, ok_, 3 if deep else 2, worst)
        # (2) dual nodal values
        dkeys = ["full", "seg", "seg+trunc", "seg+b", "seg-ext"] if deep else ["full", rng.choice(["seg", "seg+trunc", "seg+b"])]
        for ok_ in dkeys:
            _dual_nodal(ctx, res, g, name, nonuni, closed, ok_, worst)
        # (3) mixed mass matrices against degree-5 quadrature of the pointwise product
        pairs = [(("P", 1), ("DUAL", 0)), (("DP", 0), ("DUAL", 1)), (("RWG", 0), ("RBC", 0)), (("BC", 0), ("SNC", 0))]
        if deep:
            pairs += [(("DUAL", 1), ("P", 1)), (("DUAL", 0), ("DP", 0)), (("BC", 0), ("RBC", 0)), (("P", 1), ("DUAL", 1))]
        mkeys = ["full"] + (["seg", "seg-ext"] if deep else [])
        for dom, dual in pairs:
            if not closed and dom[0] in ("BC", "RBC") or not closed and dual[0] in ("BC", "RBC"):
                mk = ["full"]
            else:
                mk = mkeys
            if not deep and name == "octa":
                continue
            for ok_ in mk:
                _mass(ctx, res, g, name, nonuni, dom, dual, ok_, worst)
    for k, v in worst.items():
        res.stats["oracle_worst_" + k.lower()] = v
    res.stats["oracle_tolerances"] = dict(pointwise=1e-12, nodal=1e-13, mass=1e-10)
    return res


def search(ctx, broken):
    return oracle(ctx, deep=True)


LEVEL_TEXT = ("Lean 4 theorems re-checked by the kernel on every run against tables regenerated from the source text: the 18 "
              "sub-triangle assignments give six positively oriented sub-triangles of a sixth of the area; all 54 entries of the "
              "P1 tables are the coarse shape functions at the sub-triangle vertices, hence a coarse P1 function and its "
              "barycentric representation agree at every point of every sub-triangle (any field of characteristic 0); the RWG and "
              "SNC tables together with the length table of generate_rwg0_map and the evaluators' scaling give the coarse basis "
              "function on every sub-triangle, at every point, for every Jacobian and all non-zero lengths; the DUAL0 formulas "
              "and DUAL1 dof lists address exactly the sub-triangles / local dofs at the vertex, edge midpoints and barycentre; "
              "the local L2 integral of two functions affine on a sub-triangle is exact for a rule exact to degree 2.  The model "
              "is compared with the real barycentric grids, shapesets and every dof_transformation matrix through the driver.")
LEVEL_NOTE = ("partial: BC/RBC coefficient patterns are not modelled (oracle: mixed mass matrices against degree-5 quadrature of "
              "the pointwise product); 1/n at n-valent vertices and the neighbour loops of DUAL1 are correspondence only; "
              "mixed_mass_exact_partial is per sub-triangle with the rule's exactness as hypothesis.  Trusted: Lean kernel, ast table "
              "extractor, hand model Model/Bary.lean tied by differential comparison, homogeneity of lengths, IEEE rounding not "
              "modelled.")
TECHNIQUE = ("Lean 4 proof (decide +kernel on regenerated tables; affine interpolation + field_simp/ring over an arbitrary field) + "
             "differential correspondence of dof_transformation matrices + pointwise / nodal / mass-matrix oracle on the real code")
