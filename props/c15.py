"""C15 — linear solvers return solutions of the stated system in the right spaces."""
import itertools
import math
from fractions import Fraction as F

from vlib.common import Result, run_driver, build_driver

PID = "C15"
LEAN_MODULES = ["BemppVerif.Props.C15", "BemppVerif.Props.C15Blocked"]
N = "BemppVerif.C15."
THEOREMS = [N + t for t in [
    "pack_unpack_roundtrip", "unpack_pack_roundtrip", "pack_unpack_coefficients", "pack_unpack_projections",
    "lu_roundtrip", "lu_roundtrip_blocked",
    "precomputed_lu_same", "precomputed_lu_same_blocked", "lu_uses_supplied_factor",
    "weak_strong_systems", "weak_strong_systems_cg", "weak_strong_systems_blocked", "strong_solution_solves_weak",
    "iteration_counter", "iteration_counter_gmres", "iteration_counter_gmres_blocked", "iteration_counter_cg",
    "blocked_matvec_eq_dense", "blocked_matmat_eq_dense", "blocked_matmat_is_columnwise_matvec",
    "generalized_matmat_eq_dense", "blocked_ctor_dims_sound", "blocked_matvec_eq_dense_of_index",
]]
PARTIAL = {
    N + "lu_roundtrip": "exactness of scipy.linalg.solve (and injectivity of the weak form) are hypotheses; rounding and "
    "conditioning are covered by the oracle only",
    N + "lu_roundtrip_blocked": "same (BlockedDiscreteOperator._matvec = product with to_dense() is now a theorem, "
    "blocked_matvec_eq_dense, over the loop model Model/Blocked.lean)",
    N + "weak_strong_systems": "convergence of SciPy's GMRES/CG and info == 0 are not modelled (third party): the theorem "
    "transfers whatever residual bound the routine achieves for the operator/right-hand side it was handed to the stated "
    "system and fixes the space of the result",
    N + "weak_strong_systems_cg": "as weak_strong_systems.  The theorem says which matrix reaches SciPy's cg (M^-1 W in strong "
    "form); it does not say that this matrix is symmetric, and it is not when the element areas differ: the oracle requires "
    "convergence of strong-form CG wherever M^-1 W is symmetric (identity operators, Laplace single layer on the regular "
    "octahedron) and reports the fixed non-symmetric input as finding cg-strong-form-nonsymmetric-system while it fails",
    N + "weak_strong_systems_blocked": "as weak_strong_systems",
    N + "precomputed_lu_same": "both SciPy paths are assumed exact",
    N + "precomputed_lu_same_blocked": "both SciPy paths are assumed exact",
}
TRUSTED = [
    "hand model lean/BemppVerif/Model/Solve.lean of the wrapper logic (packing/unpacking, which operator and right-hand side "
    "reach SciPy, result spaces, callback counter), tied by differential comparison through the native driver with recording "
    "stubs in place of scipy.linalg.solve/lu_factor/lu_solve and scipy.sparse.linalg.gmres/cg",
    "SciPy's dense LU, GMRES, CG and the sparse LU behind the inverse mass matrices (external parameters of the model; "
    "exercised by the oracle, never verified)",
    "the weak forms and mass matrices given to the model are read from the implementation (sparse identity assembly is C13)",
    "hand model lean/BemppVerif/Model/Blocked.lean of BlockedDiscreteOperator._matvec/_matmat/to_dense/__init__ and "
    "GeneralizedDiscreteBlockedOperator._matmat/to_dense (offset loops), tied by EXACT differential comparison on dyadic data "
    "(props/c15_blocked.py); the real-operator/complex-vector split of _matvec is compared, not modelled as a separate path; "
    "the constructor's dimension bookkeeping (ctorDims) is compared on well- and ill-formed arrays and proved sound "
    "(blocked_ctor_dims_sound)",
]
ASSUMPTIONS = [
    "oracle tolerances: lu recovers f to 1e-10 relative for cond <= 1e6; iterative solvers: true relative residual of the stated "
    "system <= tol*(1+1e-6)+5e-15 (GMRES) resp. <= 1.05*tol+2e-14 (CG, recurrence vs. true residual), error <= 4*cond*tol+1e-9",
]
RULE = ("a case is non-trivial when the system is blocked with at least two different block sizes, or any of operator / "
        "right-hand side / solver answer is complex; distinct by (routine, block structure with dof counts, weak/strong, "
        "real/complex, rhs representation, flags)")
LEVEL_TEXT = ("Lean 4 theorems over a Mathlib-free model of the solver wrappers (SciPy routines and inverse mass matrices as "
              "parameters): pack/unpack round trips for all block structures and sizes; lu(A, A*f) returns exactly f's "
              "coefficients in the domain space(s) when the external solve is exact and the weak form injective (single and "
              "blocked, no condition on range/dual dof counts); gmres/cg hand SciPy (W, projections onto the dual) in weak form "
              "and (M^-1 W, coefficients) in strong form and wrap its answer unchanged in the domain space(s), so any residual "
              "bound transfers; the iteration count / residual list equal the number / sequence of callback calls; precomputed "
              "LU factors give the same answer; the offset loops of BlockedDiscreteOperator._matvec/_matmat and "
              "GeneralizedDiscreteBlockedOperator._matmat compute the product with to_dense() for every block layout, and the "
              "constructor's dimension bookkeeping only accepts well-formed block arrays (Model/Blocked.lean, exact comparison "
              "with the real classes on dyadic data).  The model is compared with the real wrappers through recording stubs on every "
              "run; the property itself is exercised on real SciPy solves by the oracle.")
LEVEL_NOTE = ("partial: exactness/convergence of SciPy's routines, info==0, rounding and conditioning are hypotheses of the "
              "theorems and covered by the numerical oracle only.  Trusted: Lean kernel, hand model Model/Solve.lean tied by "
              "differential comparison with recording stubs, SciPy.  Recorded finding: cg with use_strong_form=True is handed the "
              "non-symmetric M^-1 W on grids with unequal element areas and may not converge (cg-strong-form-nonsymmetric-system).")
TECHNIQUE = "Lean 4 proof (structural induction on block lists) + differential correspondence with recording stubs + oracle"

TOL_CMP = 1e-9


def generate(ctx):
    return {}


# ------------------------------------------------------------------------------------------------
# environment: grids, spaces, operators (built once per process)

_ENV = {}


def _env(ctx):
    """Grids (perturbed tetrahedron / octahedron, vertices depend on the seed), spaces and operator factories."""
    key = ctx.seed
    if key in _ENV:
        return _ENV[key]
    import random
    import numpy as np
    import bempp_cl.api as api
    from vlib import meshgen as mg

    rng = random.Random(ctx.seed * 7919 + 15)
    env = type("Env", (), {})()
    env.api = api
    env.np = np
    env.grids = {}
    env.spaces = {}
    for name, gen in (("tet", mg.tetrahedron), ("oct", mg.octahedron)):
        V, E = gen()
        V = mg.perturb(V, 0.15, rng, dyadic_bits=8)
        g = api.Grid(V, E)
        env.grids[name] = g
        env.spaces[name] = {
            "P1": api.function_space(g, "P", 1),
            "DP0": api.function_space(g, "DP", 0),
            "DP1": api.function_space(g, "DP", 1),
        }
    V, E = mg.octahedron()
    g = api.Grid(V, E)
    env.grids["octreg"] = g
    env.spaces["octreg"] = {"DP0": api.function_space(g, "DP", 0)}
    env._ident = {}
    env._mass = {}
    env._laplace = {}

    def ident(dom, rng_, dual):
        k = (id(dom), id(rng_), id(dual))
        if k not in env._ident:
            env._ident[k] = api.operators.boundary.sparse.identity(dom, rng_, dual)
        return env._ident[k]

    def mass(dom, dual):
        """dense mass matrix (dual.ndof x dom.ndof), assembled independently of get_mass_matrix's caches"""
        k = (id(dom), id(dual))
        if k not in env._mass:
            m = ident(dom, dom, dual).weak_form()
            env._mass[k] = np.asarray(m.to_dense() if hasattr(m, "to_dense") else m.todense(), dtype=float)
        return env._mass[k]

    def laplace(gname):
        if gname not in env._laplace:
            s = env.spaces[gname]["DP0"]
            env._laplace[gname] = api.operators.boundary.laplace.single_layer(s, s, s)
        return env._laplace[gname]

    env._invok = {}

    def inv_ok(dom, dual):
        """the (pseudo-)inverse mass matrix is well defined: full rank, moderately conditioned"""
        k = (id(dom), id(dual))
        if k not in env._invok:
            sv = np.linalg.svd(mass(dom, dual), compute_uv=False)
            env._invok[k] = bool(sv[-1] > 1e-6 * sv[0])
        return env._invok[k]

    env.ident, env.mass, env.laplace, env.inv_ok = ident, mass, laplace, inv_ok
    _ENV[key] = env
    return env


def _dy(rng, bits=4, lo=-3.0, hi=3.0):
    """random dyadic number with few bits (exactly representable, products stay exact-ish)"""
    n = rng.randrange(int(lo * 2**bits), int(hi * 2**bits) + 1)
    return n / 2**bits


def _dyvec(rng, n, cplx):
    import numpy as np
    if cplx:
        return np.array([complex(_dy(rng), _dy(rng)) for _ in range(n)])
    return np.array([_dy(rng) for _ in range(n)])


def _nz(rng, cplx=False):
    while True:
        a = complex(_dy(rng, 2), _dy(rng, 2)) if cplx else _dy(rng, 2)
        if abs(a) >= 0.5:
            return a


# ------------------------------------------------------------------------------------------------
# serialisation for the driver


def _sc(z):
    z = complex(z)

    def r(x):
        fr = F(float(x))
        return f"{fr.numerator}/{fr.denominator}" if fr.denominator != 1 else str(fr.numerator)
    return r(z.real) if z.imag == 0 else r(z.real) + "," + r(z.imag)


def _vec(v):
    return " ".join([str(len(v))] + [_sc(x) for x in v])


def _mat(M):
    import numpy as np
    M = np.asarray(M)
    return " ".join([str(M.shape[0]), str(M.shape[1])] + [_sc(x) for x in M.ravel()])


class _Toks:
    def __init__(self, s):
        self.t = s.split()
        self.i = 0

    def tok(self):
        self.i += 1
        return self.t[self.i - 1]

    def nat(self):
        return int(self.tok())

    def scalar(self):
        t = self.tok()
        if "," in t:
            a, b = t.split(",")
            return complex(float(F(a)), float(F(b)))
        return complex(float(F(t)), 0.0)

    def vec(self):
        import numpy as np
        return np.array([self.scalar() for _ in range(self.nat())], dtype=complex)

    def mat(self):
        import numpy as np
        r, c = self.nat(), self.nat()
        return np.array([self.scalar() for _ in range(r * c)], dtype=complex).reshape(r, c)

    def gfs(self):
        out = []
        for _ in range(self.nat()):
            kind, s, d = self.tok(), self.nat(), self.nat()
            out.append((kind, s, d, self.vec()))
        return out


def _close(a, b):
    import numpy as np
    a, b = np.asarray(a, dtype=complex), np.asarray(b, dtype=complex)
    if a.shape != b.shape:
        return False
    if a.size == 0:
        return True
    return bool(np.max(np.abs(a - b)) <= TOL_CMP * max(1.0, float(np.max(np.abs(b)))))


# ------------------------------------------------------------------------------------------------
# a "system" = operator + bookkeeping for the model request


class _System:
    """single or blocked operator built from scaled sparse identities (optionally one dense operator)"""

    def __init__(self, env, gname, blocked, doms, rngs, duals, scal, dense=None):
        # scal[i][j]: scalar or None; block (i,j) = scal * identity(doms[j], rngs[i], duals[i])
        self.env, self.gname, self.blocked = env, gname, blocked
        self.doms, self.rngs, self.duals, self.scal = doms, rngs, duals, scal
        sp = env.spaces[gname]
        api = env.api
        self.dense = dense
        if not blocked:
            base = dense if dense is not None else env.ident(sp[doms[0]], sp[rngs[0]], sp[duals[0]])
            s = scal[0][0]
            self.op = base if s == 1 else s * base
        else:
            A = api.BlockedOperator(len(rngs), len(doms))
            for i in range(len(rngs)):
                for j in range(len(doms)):
                    s = scal[i][j]
                    if s is None:
                        continue
                    base = env.ident(sp[doms[j]], sp[rngs[i]], sp[duals[i]])
                    A[i, j] = base if s == 1 else s * base
            self.op = A
        self.cplx = any(isinstance(s, complex) for row in scal for s in row if s is not None)

    def space(self, name):
        return self.env.spaces[self.gname][name]

    def block_dense(self, i, j):
        np = self.env.np
        s = self.scal[i][j]
        if self.dense is not None:
            return s * np.asarray(self.dense.weak_form().to_dense())
        M = self.env.mass(self.space(self.doms[j]), self.space(self.duals[i]))
        if s is None:
            return np.zeros_like(M)
        return s * M

    def W(self):
        np = self.env.np
        return np.vstack([np.hstack([self.block_dense(i, j) for j in range(len(self.doms))])
                          for i in range(len(self.rngs))])

    def ncols(self):
        return sum(self.space(d).global_dof_count for d in self.doms)

    def structure(self):
        cnt = lambda l: [self.space(s).global_dof_count for s in l]  # noqa
        return dict(grid=self.gname, blocked=self.blocked, domains=self.doms, ranges=self.rngs, duals=self.duals,
                    domain_dofs=cnt(self.doms), range_dofs=cnt(self.rngs), dual_dofs=cnt(self.duals),
                    zero_blocks=sum(1 for r in self.scal for s in r if s is None))

    def different_block_sizes(self):
        st = self.structure()
        return self.blocked and (len(set(st["domain_dofs"])) > 1 or len(set(st["dual_dofs"])) > 1)


class _Req:
    """builds the driver request for one call and knows the local space numbering"""

    def __init__(self, env, gname):
        self.env, self.gname = env, gname
        self.ids = {}
        self.ndofs = []
        self.mass = {}
        self.inv = {}

    def sid(self, space):
        for k, (s, i) in self.ids.items():
            if s is space:
                return i
        i = len(self.ids)
        self.ids[id(space)] = (space, i)
        self.ndofs.append(space.global_dof_count)
        return i

    def space_of(self, i):
        for s, j in self.ids.values():
            if j == i:
                return s
        return None

    def need_mass(self, dom, dual):
        self.mass[(self.sid(dom), self.sid(dual))] = self.env.mass(dom, dual)

    def need_inv(self, dom, dual):
        np = self.env.np
        self.inv[(self.sid(dom), self.sid(dual))] = np.linalg.pinv(self.env.mass(dom, dual))

    def gf(self, f, targets):
        """serialise a grid function; `targets` = dual spaces its projections may be asked for"""
        s, d = f.space, f.dual_space
        if f._coefficients is not None:
            txt = f"c {self.sid(s)} {self.sid(d)} " + _vec(f._coefficients)
        else:
            txt = f"p {self.sid(s)} {self.sid(d)} " + _vec(f._projections)
            if self.env.inv_ok(s, d):
                self.need_inv(s, d)
        for t in targets:
            self.need_mass(s, t)
        return txt

    def op(self, sysm):
        if not sysm.blocked:
            d, r, du = (sysm.space(x[0]) for x in (sysm.doms, sysm.rngs, sysm.duals))
            if self.env.inv_ok(r, du):
                self.need_inv(r, du)
            return f"S {self.sid(d)} {self.sid(r)} {self.sid(du)} " + _mat(sysm.block_dense(0, 0))
        m, n = len(sysm.rngs), len(sysm.doms)
        for i in range(m):
            if self.env.inv_ok(sysm.space(sysm.rngs[i]), sysm.space(sysm.duals[i])):
                self.need_inv(sysm.space(sysm.rngs[i]), sysm.space(sysm.duals[i]))
        parts = [f"B {m} {n}"]
        parts += [str(self.sid(sysm.space(x))) for x in sysm.doms]
        parts += [str(self.sid(sysm.space(x))) for x in sysm.rngs]
        parts += [str(self.sid(sysm.space(x))) for x in sysm.duals]
        for i in range(m):
            for j in range(n):
                parts.append(_mat(sysm.block_dense(i, j)))
        return " ".join(parts)

    def line(self, fn, strong, rr, rc, fac, tol, restart, maxiter, optxt, rhstxt, x, info, calls):
        def tab(t):
            return " ".join([str(len(t))] + [f"{a} {b} " + _mat(M) for (a, b), M in t.items()])
        o = lambda v: "-" if v is None else str(v)  # noqa
        callt = " ".join([str(len(calls))] + [(_vec(c) if hasattr(c, "__len__") else _sc(c)) for c in calls])
        return " ".join([
            "solve", fn, str(int(strong)), str(int(rr)), str(int(rc)), str(int(fac)), _sc(tol), o(restart), o(maxiter),
            str(len(self.ndofs)), " ".join(map(str, self.ndofs)), tab(self.mass), tab(self.inv), optxt, rhstxt,
            "X", _vec(x), "INFO", str(info), "CALLS", callt])


# ------------------------------------------------------------------------------------------------
# recording stubs


class _Stubs:
    """replaces the SciPy entry points the wrappers use; records what reaches them"""

    def __init__(self, x, info, calls):
        self.x, self.info, self.calls = x, info, calls
        self.log = []

    def __enter__(self):
        import scipy.linalg
        import scipy.sparse.linalg
        self.sl, self.ssl = scipy.linalg, scipy.sparse.linalg
        self.saved = (self.sl.solve, self.sl.lu_solve, self.sl.lu_factor, self.ssl.gmres, self.ssl.cg)
        st = self

        def solve(*a, **k):
            st.log.append(("solve", a, k))
            return st.x.copy()

        def lu_solve(*a, **k):
            st.log.append(("lu_solve", a, k))
            return st.x.copy()

        def lu_factor(*a, **k):
            st.log.append(("lu_factor", a, k))
            return ("FACTOR-OF", a[0])

        def krylov(name):
            def f(*a, **k):
                st.log.append((name, a, k))
                cb = k.get("callback")
                for c in st.calls:
                    if cb is not None:
                        cb(c)
                return st.x.copy(), st.info
            return f

        self.sl.solve, self.sl.lu_solve, self.sl.lu_factor = solve, lu_solve, lu_factor
        self.ssl.gmres, self.ssl.cg = krylov("gmres"), krylov("cg")
        return self

    def __exit__(self, *a):
        self.sl.solve, self.sl.lu_solve, self.sl.lu_factor, self.ssl.gmres, self.ssl.cg = self.saved


def _probe(op, n):
    """matrix of a linear operator / ndarray by application to the unit vectors"""
    import numpy as np
    if isinstance(op, np.ndarray):
        return op
    cols = []
    for j in range(n):
        e = np.zeros(n)
        e[j] = 1.0
        cols.append(np.asarray(op @ e).ravel())
    return np.array(cols).T if cols else np.zeros((0, 0))


def _status(exc):
    if exc is None:
        return "ok"
    return "value-error" if isinstance(exc, ValueError) else "other-error"


# ------------------------------------------------------------------------------------------------
# random systems / right-hand sides


_SP = ["P1", "DP0", "DP1"]


def _random_system(env, rng, blocked=None, cplx=None):
    gname = rng.choice(["tet", "oct"])
    if blocked is None:
        blocked = rng.random() < 0.6
    if cplx is None:
        cplx = rng.random() < 0.4
    if not blocked:
        d, r, du = rng.choice(_SP), rng.choice(_SP), rng.choice(_SP)
        return _System(env, gname, False, [d], [r], [du], [[_nz(rng, cplx)]])
    m, n = rng.choice([(1, 1), (2, 2), (2, 2), (2, 3), (3, 2), (3, 3), (2, 1)])
    doms = [rng.choice(_SP) for _ in range(n)]
    rngs = [rng.choice(_SP) for _ in range(m)]
    duals = [rng.choice(_SP) for _ in range(m)]
    scal = [[(None if rng.random() < 0.25 else _nz(rng, cplx and rng.random() < 0.6)) for _ in range(n)]
            for _ in range(m)]
    for i in range(m):  # every row and column needs an operator
        if all(s is None for s in scal[i]):
            scal[i][rng.randrange(n)] = _nz(rng)
    for j in range(n):
        if all(scal[i][j] is None for i in range(m)):
            scal[rng.randrange(m)][j] = _nz(rng)
    return _System(env, gname, True, doms, rngs, duals, scal)


def _random_gf(env, rng, space, dual_for_weak, cplx, sysm_spaces, need_inv):
    """a grid function in `space`: by coefficients, by projections onto `dual_for_weak`, or onto another dual.
    Representations whose coefficients would need a rank-deficient mass matrix are not generated."""
    api = env.api
    kind = rng.choice(["primal", "dual-same", "dual-other"])
    d = None
    if kind == "dual-same":
        d = dual_for_weak
        if need_inv and not env.inv_ok(space, d):
            kind = "primal"
    elif kind == "dual-other":
        cands = [s for s in sysm_spaces if s is not dual_for_weak and env.inv_ok(space, s)]
        if cands:
            d = rng.choice(cands)
        else:
            kind = "primal"
    if kind == "primal":
        return api.GridFunction(space, coefficients=_dyvec(rng, space.global_dof_count, cplx)), kind
    return api.GridFunction(space, projections=_dyvec(rng, d.global_dof_count, cplx), dual_space=d), kind


# ------------------------------------------------------------------------------------------------
# correspondence


def correspondence(ctx):
    res = Result()
    build_driver()
    env = _env(ctx)
    api, np = env.api, env.np
    rng = ctx.rng
    reqs, checks = [], []

    def add(line, fn):
        reqs.append(line)
        checks.append(fn)

    # 0. plain splitting (NumPy slicing, incl. vectors that are too short / too long)
    for _ in range(ctx.pick(10, 60)):
        counts = [rng.randrange(0, 5) for _ in range(rng.randrange(0, 5))]
        n = max(0, sum(counts) + rng.choice([0, 0, 0, -1, 2]))
        v = _dyvec(rng, n, rng.random() < 0.3)
        got, pos = [], 0
        for c in counts:
            got.append(v[pos:pos + c])
            pos += c

        def chk(ans, got=got, counts=counts, n=n):
            t = _Toks(ans)
            if t.tok() != "ok" or t.nat() != len(got):
                res.disagree("splitby", counts=counts, n=n, model=ans[:80])
                return
            for g_ in got:
                mv = t.vec()
                if len(mv) != len(g_) or (len(g_) and np.max(np.abs(mv - g_)) != 0):
                    res.disagree("splitby", counts=counts, n=n, model=ans[:80])
                    return
        add(f"splitby {len(counts)} " + " ".join(map(str, counts)) + (" " if counts else "") + _vec(v), chk)
        res.case(("splitby", tuple(counts), n), nontrivial=len(set(counts)) > 1)

    ncases = ctx.pick(70, 400)
    fns = ["mul", "lu", "lu", "gmres", "gmres", "gmres", "cg"]
    for ci in range(ncases):
        fn = fns[ci % len(fns)] if ci < 4 * len(fns) else rng.choice(fns)
        misuse = rng.random() < 0.08
        sysm = _random_system(env, rng, blocked=(False if fn == "cg" and not misuse else None))
        strong = fn in ("gmres", "cg") and rng.random() < 0.5
        rr, rc = rng.random() < 0.6, rng.random() < 0.6
        fac = fn == "lu" and rng.random() < 0.4
        cplx_rhs = rng.random() < 0.4
        # a list may mix real and complex entries (seed C15-a: dtype taken from the first entry only)
        mixed_rhs = cplx_rhs and rng.random() < 0.5
        def blk_cplx(i):
            return cplx_rhs and (not mixed_rhs or (i > 0 and (i == 1 or rng.random() < 0.5)))
        cplx_x = rng.random() < 0.4
        all_spaces = list(env.spaces[sysm.gname].values())
        req = _Req(env, sysm.gname)
        optxt = req.op(sysm)
        # right-hand side
        kinds = []
        if fn == "mul":
            fs = []
            for i_, d in enumerate(sysm.doms):
                sp = sysm.space(d)
                if misuse and rng.random() < 0.5:
                    sp = rng.choice(all_spaces)
                f, k = _random_gf(env, rng, sp, sp, blk_cplx(i_), all_spaces, True)
                fs.append(f)
                kinds.append(k)
            if misuse and sysm.blocked and rng.random() < 0.5:
                fs = fs[:-1] if rng.random() < 0.5 else fs + [fs[0]]
            rhs = fs if sysm.blocked else fs[0]
            targets = [[] for _ in fs]
        else:
            bs = []
            for i, r in enumerate(sysm.rngs):
                sp = sysm.space(r)
                if misuse and rng.random() < 0.5:
                    sp = rng.choice(all_spaces)
                f, k = _random_gf(env, rng, sp, sysm.space(sysm.duals[i]), blk_cplx(i), all_spaces, False)
                bs.append(f)
                kinds.append(k)
            if strong and not (all(env.inv_ok(sysm.space(r_), sysm.space(d_)) for r_, d_ in zip(sysm.rngs, sysm.duals))
                               and all(f._coefficients is not None or env.inv_ok(f.space, f.dual_space) for f in bs)):
                strong = False
            rhs = bs if sysm.blocked else bs[0]
            targets = [[sysm.space(sysm.duals[i])] for i in range(len(bs))]
            if misuse and rng.random() < 0.5:  # wrong container type
                rhs = bs[0] if sysm.blocked else [bs[0]]
        rl = rhs if isinstance(rhs, list) else [rhs]
        rhstxt = ("many %d " % len(rl) if isinstance(rhs, list) else "one ") + " ".join(
            req.gf(f, targets[min(i, len(targets) - 1)]) for i, f in enumerate(rl))
        # what the stub answers
        n = sysm.ncols()
        x = _dyvec(rng, n, cplx_x)
        info = rng.choice([0, 0, 5, -1])
        k = rng.randrange(0, 5)
        if fn == "gmres":
            calls = [abs(_dy(rng, 6)) for _ in range(k)]
        elif fn == "cg":
            calls = [_dyvec(rng, n, cplx_x) for _ in range(k)]
        else:
            calls = []
        tol = rng.choice([None, 1e-4, 1e-6, 1e-8, 1e-10, 1e-12, 3e-7])
        restart = rng.choice([None, None, 3, 10, 50]) if fn == "gmres" else None
        maxiter = rng.choice([None, None, 7, 100, 1000])
        kw = {}
        if fn in ("gmres", "cg"):
            if tol is not None:
                kw["tol"] = tol
            if restart is not None:
                kw["restart"] = restart
            if maxiter is not None:
                kw["maxiter"] = maxiter
            if strong:
                kw["use_strong_form"] = True
            if rr:
                kw["return_residuals"] = True
            if rc:
                kw["return_iteration_count"] = True
        sentinel = ("SENTINEL-FACTOR",)
        if fac:
            kw["lu_factor"] = sentinel
        exc, out = None, None
        with _Stubs(x, info, calls) as st:
            try:
                if fn == "mul":
                    out = sysm.op * rhs
                else:
                    out = getattr(api, fn)(sysm.op, rhs, **kw)
            except Exception as e:  # noqa
                exc = e
            facmat = None
            if fn == "lu" and exc is None:
                try:
                    fobj = api.compute_lu_factors(sysm.op)
                    facmat = fobj[1] if isinstance(fobj, tuple) and fobj[0] == "FACTOR-OF" else None
                except Exception as e:  # noqa
                    facmat = e
        log = [l for l in st.log if l[0] != "lu_factor"]
        line = req.line(fn, strong, rr, rc, fac, 1e-5 if tol is None else tol, restart, maxiter, optxt, rhstxt, x, info,
                        calls)
        cplx_any = bool(sysm.cplx or cplx_rhs or cplx_x)
        nontrivial = sysm.different_block_sizes() or cplx_any
        key = (fn, sysm.blocked, tuple(sysm.structure()["domain_dofs"]), tuple(sysm.structure()["range_dofs"]),
               tuple(sysm.structure()["dual_dofs"]), strong, cplx_any, tuple(kinds), rr, rc, fac, _status(exc))
        res.case(key, nontrivial=nontrivial,
                 sample=dict(fn=fn, system=sysm.structure(), strong=strong, complex=cplx_any, rhs=kinds,
                             status=_status(exc), tol=tol, restart=restart, maxiter=maxiter))
        res.count("corr_" + fn)
        if exc is not None:
            res.count("corr_rejected_calls")

        def chk(ans, fn=fn, sysm=sysm, req=req, exc=exc, out=out, log=log, strong=strong, rr=rr, rc=rc, fac=fac, x=x,
                info=info, calls=calls, tol=tol, restart=restart, maxiter=maxiter, sentinel=sentinel, facmat=facmat,
                kinds=kinds, n=n):
            desc = dict(fn=fn, system=sysm.structure(), strong=strong, rhs=kinds, flags=[rr, rc, fac])
            t = _Toks(ans)
            head = t.tok()
            if head == "err":
                m = t.tok()
                if _status(exc) != m:
                    res.disagree("status", impl=_status(exc) + (": " + repr(exc)[:120] if exc else ""), model=m, **desc)
                return
            if exc is not None:
                res.disagree("status", impl=_status(exc) + ": " + repr(exc)[:160], model="ok", **desc)
                return

            def cmp_gfs(model_gfs, impl):
                impl_l = impl if isinstance(impl, list) else [impl]
                if (len(model_gfs) != len(impl_l)) or (isinstance(impl, list) != sysm.blocked):
                    res.disagree("result shape", impl=len(impl_l), model=len(model_gfs), **desc)
                    return
                for idx, ((kind, s, d, v), g_) in enumerate(zip(model_gfs, impl_l)):
                    ik = "c" if g_._coefficients is not None else "p"
                    iv = g_._coefficients if ik == "c" else g_._projections
                    if req.space_of(s) is not g_.space or req.space_of(d) is not g_.dual_space:
                        res.disagree("result space", index=idx, impl=[g_.space.identifier, g_.space.global_dof_count,
                                                                     g_.dual_space.identifier],
                                     model=[req.space_of(s).identifier, req.space_of(s).global_dof_count], **desc)
                        return
                    if ik != kind or not _close(iv, v):
                        res.disagree("result values", index=idx, impl_kind=ik, model_kind=kind, impl_len=len(iv),
                                     model_len=len(v), **desc)
                        return

            t.tok()  # mul | lu | it
            if fn == "mul":
                t.tok()
                cmp_gfs(t.gfs(), out)
                return
            if len(log) != 1:
                res.disagree("number of SciPy calls", impl=[l[0] for l in log], **desc)
                return
            name, a, k_ = log[0]
            if fn == "lu":
                call = t.tok()
                if call == "solve":
                    M = t.mat()
                    if name != "solve" or len(a) != 2 or k_ or not _close(a[0], M):
                        res.disagree("lu: matrix handed to scipy.linalg.solve", impl=name, model="solve", **desc)
                        return
                else:
                    if name != "lu_solve" or len(a) != 2 or k_ or a[0] is not sentinel:
                        res.disagree("lu: supplied lu_factor not handed to lu_solve", impl=name, model="lu_solve", **desc)
                        return
                t.tok()
                V = t.vec()
                if not _close(a[1], V):
                    res.disagree("lu: right-hand side", impl=np.asarray(a[1]).tolist()[:6], model=V.tolist()[:6], **desc)
                    return
                t.tok()
                cmp_gfs(t.gfs(), out)
                t.tok()
                Fm = t.mat()
                if not isinstance(facmat, np.ndarray) or not _close(facmat, Fm):
                    res.disagree("compute_lu_factors: matrix handed to lu_factor", impl=str(type(facmat)), **desc)
                return
            # gmres / cg
            M = t.mat()
            if name != fn or len(a) != 2:
                res.disagree("iterative: routine", impl=name, model=fn, **desc)
                return
            extra = sorted(set(k_) - {"rtol", "restart", "maxiter", "callback"})
            if extra or "callback" not in k_ or k_["callback"] is None:
                res.disagree("iterative: unexpected keyword arguments reach SciPy", impl=sorted(k_), **desc)
                return
            Mi = _probe(a[0], n)
            if not _close(Mi, M):
                res.disagree("iterative: operator handed to SciPy", impl_shape=list(np.shape(Mi)),
                             model_shape=list(M.shape), **desc)
                return
            t.tok()
            V = t.vec()
            if not _close(a[1], V):
                res.disagree("iterative: right-hand side handed to SciPy", impl=np.asarray(a[1]).tolist()[:4],
                             model=V.tolist()[:4], **desc)
                return
            t.tok()
            mt, mr, mm = t.tok(), t.tok(), t.tok()
            o = lambda v: "-" if v is None else str(v)  # noqa
            it = (_sc(k_.get("rtol")), o(k_.get("restart")) if fn == "gmres" else "-", o(k_.get("maxiter")))
            if fn == "cg" and "restart" in k_:
                it = (it[0], "unexpected", it[2])
            if (mt, mr, mm) != it:
                res.disagree("iterative: rtol/restart/maxiter", impl=list(it), model=[mt, mr, mm], **desc)
                return
            t.tok()
            gfs = t.gfs()
            exp_len = 2 + int(rr) + int(rc)
            if not isinstance(out, tuple) or len(out) != exp_len:
                res.disagree("iterative: return tuple", impl=str(type(out)), **desc)
                return
            cmp_gfs(gfs, out[0])
            t.tok()
            if int(t.tok()) != out[1]:
                res.disagree("iterative: info", impl=out[1], **desc)
            t.tok()
            h_ = t.tok()
            mres = None if h_ == "-" else [float(F(t.tok())) for _ in range(int(h_))]
            t.tok()
            h_ = t.tok()
            mcnt = None if h_ == "-" else int(h_)
            ires = out[2] if rr else None
            icnt = out[-1] if rc else None
            if (mcnt is None) != (icnt is None) or (mcnt is not None and mcnt != icnt):
                res.disagree("iteration count", impl=icnt, model=mcnt, callback_calls=len(calls), **desc)
            if (mres is None) != (ires is None) or (mres is not None and (
                    len(mres) != len(ires) or not _close([float(v) ** 2 for v in ires], mres))):
                res.disagree("residual list", impl=None if ires is None else [float(v) for v in ires],
                             model=None if mres is None else [math.sqrt(v) for v in mres], **desc)

        add(line, chk)
    # products of the discrete blocked operators (Model/Blocked.lean), exact comparison
    from props import c15_blocked
    try:
        c15_blocked.add_requests(ctx, res, add)
    except Exception as exc:  # noqa: BLE001
        res.disagree("blocked-operator correspondence raised", error=repr(exc)[:300])
    answers = run_driver(reqs)
    for a, c in zip(answers, checks):
        c(a)
    res.count("driver_requests", len(reqs))
    return res


# ------------------------------------------------------------------------------------------------
# oracle: the property on the real code with the real SciPy


def _oracle_systems(env, rng, deep):
    """well-conditioned systems.  Each entry: (name, _System, family) with family in
    'spd' (symmetric positive definite weak form), 'pd' (positive definite symmetric part), 'inv' (merely invertible)"""
    out = []
    for g in ("tet", "oct"):
        out.append((f"id-P1-{g}", _System(env, g, False, ["P1"], ["P1"], ["P1"], [[1]]), "spd"))
        out.append((f"id-DP0-{g}", _System(env, g, False, ["DP0"], ["DP0"], ["DP0"], [[1]]), "spd"))
    out.append(("id-DP1-tet", _System(env, "tet", False, ["DP1"], ["DP1"], ["DP1"], [[2.5]]), "spd"))
    # range and dual with different dof counts (6 vs 8 on the octahedron), same on the tetrahedron
    out.append(("id-DP0-rangeP1-oct", _System(env, "oct", False, ["DP0"], ["P1"], ["DP0"], [[1]]), "spd"))
    out.append(("id-DP0-rangeP1-tet", _System(env, "tet", False, ["DP0"], ["P1"], ["DP0"], [[-1.5]]), "inv"))
    out.append(("id-P1-complex-oct", _System(env, "oct", False, ["P1"], ["P1"], ["P1"], [[complex(1.0, 0.75)]]), "pd"))
    out.append(("laplace-octreg", _System(env, "octreg", False, ["DP0"], ["DP0"], ["DP0"], [[1]],
                                          dense=env.laplace("octreg")), "spd"))

    def gram(g, doms, rngs, cplx, mode):
        n = len(doms)
        t = [1.0 + rng.randrange(1, 5) / 2 for _ in range(n)]
        scal = [[None] * n for _ in range(n)]
        for i in range(n):
            for j in range(n):
                if i == j:
                    scal[i][j] = 1.0 + t[i]
                elif mode == "sym":
                    scal[i][j] = 1.0
                elif mode == "skew":
                    scal[i][j] = 1.0 if i < j else -1.0
                elif mode == "tri":
                    scal[i][j] = None if j > i else _nz(rng)
        fam = {"sym": "spd", "skew": "pd", "tri": "inv"}[mode]
        if cplx:
            a = complex(1.0, rng.choice([0.5, -0.75, 1.25]))
            scal = [[None if s is None else a * s for s in row] for row in scal]
            fam = "pd" if fam in ("spd", "pd") else "inv"
        return _System(env, g, True, doms, rngs, doms, scal), fam

    plans = [
        ("oct", ["P1", "DP0"], ["P1", "P1"], False, "sym"),      # block row 1: range P1 (6) / dual DP0 (8)
        ("oct", ["P1", "DP0"], ["DP1", "P1"], True, "skew"),
        ("tet", ["P1", "DP0", "DP1"], ["DP0", "P1", "DP1"], False, "skew"),
        ("tet", ["DP1", "P1"], ["DP1", "DP0"], True, "sym"),
        ("oct", ["DP0", "P1"], ["P1", "DP1"], False, "tri"),
        ("tet", ["P1", "DP1", "DP0"], ["P1", "DP1", "P1"], True, "tri"),
    ]
    if deep:
        plans += [("oct", ["P1", "DP0", "DP1"], ["DP1", "DP1", "P1"], c, m)
                  for c in (False, True) for m in ("sym", "skew", "tri")]
    for g, doms, rngs, cplx, mode in plans:
        s, fam = gram(g, doms, rngs, cplx, mode)
        out.append((f"block-{g}-{'-'.join(doms)}-{mode}{'-c' if cplx else ''}", s, fam))
    return out


def _strong_ok(sysm):
    """the strong form is a square system: range and domain dof counts agree row by row"""
    st = sysm.structure()
    return st["range_dofs"] == st["domain_dofs"]


def _minv_apply(env, sysm, v):
    """block diagonal of inverse mass matrices applied to v, computed independently (dense solves)"""
    np = env.np
    out, pos = [], 0
    for r, d in zip(sysm.rngs, sysm.duals):
        M = env.mass(sysm.space(r), sysm.space(d))
        k = M.shape[0]
        piece = v[pos:pos + k]
        out.append(np.linalg.solve(M, piece) if M.shape[0] == M.shape[1] else np.linalg.pinv(M) @ piece)
        pos += k
    return np.concatenate(out)


def _cg_strong_finding(env):
    """cg(V, V*f, tol=1e-12, use_strong_form=True) for the Laplace single layer on DP0 of the octahedron perturbed with
    random.Random(15), amount 0.3 (independent of VERIF_SEED; with amount 0.15 this particular geometry happens to
    converge), f = 1..8.  The weak form must converge; the strong form is the recorded finding
    `cg-strong-form-nonsymmetric-system`."""
    import random
    import warnings
    from vlib import meshgen as mg
    api, np = env.api, env.np
    res = Result()
    V, E = mg.octahedron()
    V = mg.perturb(V, 0.3, random.Random(15), dyadic_bits=8)
    g = api.Grid(V, E)
    s = api.function_space(g, "DP", 0)
    Vop = api.operators.boundary.laplace.single_layer(s, s, s)
    f = api.GridFunction(s, coefficients=np.arange(1.0, s.global_dof_count + 1))
    W = np.asarray(Vop.weak_form().to_dense())
    M = env.mass(s, s)
    A = np.linalg.solve(M, W)
    tol = 1e-12
    b = Vop * f
    with warnings.catch_warnings():
        warnings.simplefilter("ignore")
        xw, info_w = api.cg(Vop, b, tol=tol)
        xs, info_s = api.cg(Vop, Vop * f, tol=tol, use_strong_form=True)
    pw = W @ f.coefficients
    cb = np.linalg.solve(M, pw)
    rel_w = float(np.linalg.norm(pw - W @ xw.coefficients) / np.linalg.norm(pw))
    rel_s = float(np.linalg.norm(cb - A @ xs.coefficients) / np.linalg.norm(cb))
    asym = float(np.max(np.abs(A - A.T)) / np.max(np.abs(A)))
    res.case(("cg-strong-finding", "weak"), nontrivial=False)
    res.case(("cg-strong-finding", "strong"), nontrivial=False)
    res.stats["cg_strong_form_fixed_input"] = dict(info_weak=int(info_w), rel_residual_weak=float(f"{rel_w:.3e}"),
                                                   info_strong=int(info_s), rel_residual_strong=float(f"{rel_s:.3e}"),
                                                   asymmetry_of_Minv_W=float(f"{asym:.3e}"))
    if info_w != 0 or rel_w > 1.05 * tol + 2e-14:
        res.counterexample("cg-info-nonzero", f"cg (weak form) on the Laplace single layer, fixed perturbed octahedron: "
                           f"info={info_w}, relative residual {rel_w:.3e}")
    if info_s != 0 or rel_s > tol:
        res.counterexample(
            "cg-strong-form-nonsymmetric-system",
            f"cg(V, V*f, tol=1e-12, use_strong_form=True) for the Laplace single layer V on DP0 of the octahedron perturbed by "
            f"meshgen.perturb(V, 0.3, random.Random(15), dyadic_bits=8), f = 1..8: info={info_s}, true relative residual of "
            f"the stated system M^-1 W x = c_b is {rel_s:.3e} (> tol); the weak form of the same system gives info={info_w}, "
            f"residual {rel_w:.3e}.  The wrapper hands SciPy's cg the matrix M^-1 W, which is not symmetric when element "
            f"areas differ (relative asymmetry {asym:.2e})",
            info=int(info_s), rel_residual=rel_s, tol=tol, info_weak=int(info_w), rel_residual_weak=rel_w, asymmetry=asym,
            vertices=V.tolist(), elements=np.asarray(E).tolist())
    return res


def _generalized_blocked(env, rng):
    """2x2 GeneralizedBlockedOperator of scaled sparse identities with domain spaces [DP0, P1] and dual spaces [P1, DP0] on the
    octahedron: the first block of each row is not square.  Everything is compared with the block matrix built from the
    weak forms of the individual operators."""
    import numpy as np
    api = env.api
    res = Result()
    sp = env.spaces["oct"]
    dp0, p1 = sp["DP0"], sp["P1"]
    ident = api.operators.boundary.sparse.identity
    sc = [[2.0, -1.5], [1.0, 0.75]]
    doms, duals = [dp0, p1], [p1, dp0]
    ops = [[sc[i][j] * ident(doms[j], duals[i], duals[i]) for j in range(2)] for i in range(2)]
    A = api.GeneralizedBlockedOperator(ops)
    W = np.block([[np.asarray(ops[i][j].weak_form().to_dense()) for j in range(2)] for i in range(2)])
    cond = float(np.linalg.cond(W))
    nd = [d.global_dof_count for d in doms]
    nt = [d.global_dof_count for d in duals]
    res.case(("generalized-blocked", tuple(nd), tuple(nt)), nontrivial=True,
             sample=dict(kind="generalized blocked 2x2, non-square blocks", domain_dofs=nd, dual_dofs=nt, cond=cond))
    x = np.array([rng.uniform(-1, 1) for _ in range(sum(nd))]) + 1j * np.array([rng.uniform(-1, 1) for _ in range(sum(nd))])
    wf = A.weak_form()

    def rel(a, b):
        return float(np.max(np.abs(np.asarray(a) - np.asarray(b)))) / max(1e-300, float(np.max(np.abs(b))))
    what = []
    e = rel(wf.to_dense(), W)
    if e > 1e-13:
        what.append(f"to_dense differs from the block matrix by {e:.2e}")
    e = rel(wf @ x, W @ x)
    if e > 1e-12:
        what.append(f"weak_form() @ x differs from (block matrix) @ x by {e:.2e}")
    X3 = np.stack([x, x.conj(), 1j * x], axis=1)
    e = rel(wf @ X3, W @ X3)
    if e > 1e-12:
        what.append(f"weak_form() @ X (three columns) differs from (block matrix) @ X by {e:.2e}")
    if cond < 1e8:
        fs = [api.GridFunction(doms[0], coefficients=x[:nd[0]]), api.GridFunction(doms[1], coefficients=x[nd[0]:])]
        b = A * fs
        pb = np.concatenate([g.projections(duals[i]) for i, g in enumerate(b)])
        e = rel(pb, W @ x)
        if e > 1e-12:
            what.append(f"projections of A*f differ from (block matrix) @ coefficients by {e:.2e}")
        bl = [api.GridFunction(duals[i], projections=(W @ x)[sum(nt[:i]):sum(nt[:i + 1])], dual_space=duals[i]) for i in range(2)]
        for label, solve in (("lu", lambda: api.lu(A, bl)), ("gmres", lambda: api.gmres(A, bl, tol=1e-12)[0])):
            sol = solve()
            got = np.concatenate([g.coefficients for g in sol])
            e = rel(got, x)
            if e > (1e-9 if label == "lu" else 1e-9 * cond):
                what.append(f"{label}(A, b) differs from the solution of the stated system by {e:.2e} (cond {cond:.1f})")
    if what:
        res.counterexample("generalized-blocked-operator", "GeneralizedBlockedOperator with non-square blocks (domain spaces "
                           f"[DP0, P1], dual spaces [P1, DP0], dofs {nd} / {nt}): " + "; ".join(what), domain_dofs=nd,
                           dual_dofs=nt, cond=cond)
    return res


def oracle(ctx, deep=False):
    import warnings
    res = Result()
    env = _env(ctx)
    api, np = env.api, env.np
    import scipy.linalg
    import scipy.sparse.linalg as ssl
    rng = ctx.rng
    deep = deep or ctx.thorough
    systems = _oracle_systems(env, rng, deep)
    worst = dict(lu=0.0, lu_factor=0.0, gmres_res=0.0, cg_res=0.0, gmres_last=0.0, cg_last=0.0, err_over_bound=0.0)
    tols = [1e-4, 1e-6, 1e-8, 1e-10, 1e-12]

    def coeffs(n, cplx):
        v = np.array([rng.uniform(-1, 1) for _ in range(n)])
        if cplx:
            v = v + 1j * np.array([rng.uniform(-1, 1) for _ in range(n)])
        return v

    def make_f(sysm, cplx):
        fs = [api.GridFunction(sysm.space(d), coefficients=coeffs(sysm.space(d).global_dof_count, cplx))
              for d in sysm.doms]
        return fs if sysm.blocked else fs[0]

    def cvec(fs):
        return np.concatenate([f.coefficients for f in (fs if isinstance(fs, list) else [fs])])

    def spaces_ok(sysm, sol):
        sl = sol if isinstance(sol, list) else [sol]
        if isinstance(sol, list) != sysm.blocked or len(sl) != len(sysm.doms):
            return False
        return all(s.space is sysm.space(d) and len(s.coefficients) == sysm.space(d).global_dof_count
                   for s, d in zip(sl, sysm.doms))

    for name, sysm, fam in systems:
        W = sysm.W()
        cond = float(np.linalg.cond(W))
        res.stats.setdefault("cond", {})[name] = round(cond, 2)
        nt_sys = sysm.different_block_sizes()
        # block rows whose range and dual spaces have different dof counts exercise the slicing of projection vectors
        slice_case = sysm.blocked and sysm.structure()["range_dofs"] != sysm.structure()["dual_dofs"]
        for cplx in (False, True):
            nt = nt_sys or cplx or sysm.cplx
            f = make_f(sysm, cplx)
            cf = cvec(f)
            scale = float(np.max(np.abs(cf)))
            try:
                b = sysm.op * f
            except Exception as e:  # noqa
                res.counterexample("apply-raises" if not slice_case else "blocked-projections-slice",
                                   f"A*f raises {type(e).__name__}: {e} for system {name}", system=sysm.structure())
                continue
            # ---- LU
            res.case(("lu", name, cplx), nontrivial=nt,
                     sample=dict(kind="lu", system=sysm.structure(), complex=bool(cplx or sysm.cplx), cond=cond))
            try:
                sol = api.lu(sysm.op, b)
                err = float(np.max(np.abs(cvec(sol) - cf))) / scale
                worst["lu"] = max(worst["lu"], err)
                if not spaces_ok(sysm, sol):
                    res.counterexample("lu-result-space", f"lu: result does not live in the domain space(s) ({name})",
                                       system=sysm.structure())
                if err > 1e-10:
                    key = "blocked-projections-slice" if slice_case else "lu-roundtrip"
                    res.counterexample(key, f"lu(A, A*f) differs from f by {err:.3e} (relative, cond {cond:.1f}) for {name}",
                                       system=sysm.structure(), complex=bool(cplx), error=err)
                # precomputed factors
                fac = api.compute_lu_factors(sysm.op)
                sol2 = api.lu(sysm.op, b, lu_factor=fac)
                e2 = float(np.max(np.abs(cvec(sol2) - cvec(sol)))) / scale
                worst["lu_factor"] = max(worst["lu_factor"], e2)
                if e2 > 1e-11 or not spaces_ok(sysm, sol2):
                    res.counterexample("lu-factor-differs", f"lu with precomputed factors differs from the direct solve by "
                                       f"{e2:.3e} for {name}", system=sysm.structure())
                # the supplied factors are what is used: factors of 2W give f/2
                fac_half = scipy.linalg.lu_factor(2.0 * W)
                sol3 = api.lu(sysm.op, b, lu_factor=fac_half)
                e3 = float(np.max(np.abs(2.0 * cvec(sol3) - cf))) / scale
                res.case(("lu-factor-used", name, cplx), nontrivial=nt)
                if e3 > 1e-10:
                    res.counterexample("lu-ignores-lu-factor", f"lu(A, b, lu_factor=factors of 2W) does not return f/2 "
                                       f"(error {e3:.3e}) for {name}: the supplied factors are not what is used",
                                       system=sysm.structure())
            except Exception as e:  # noqa
                res.counterexample("lu-raises" if not slice_case else "blocked-projections-slice",
                                   f"lu raises {type(e).__name__}: {e} for {name}", system=sysm.structure())
            # ---- a right-hand side LIST whose first entry is real and whose later entries are complex: the solution must
            # solve the stated system W x = (projections of the list onto the duals)
            if cplx and sysm.blocked and len(sysm.rngs) >= 2 and W.shape[0] == W.shape[1] and cond < 1e6:
                try:
                    bl = []
                    for i_, (r_, d_) in enumerate(zip(sysm.rngs, sysm.duals)):
                        nd = sysm.space(d_).global_dof_count
                        bl.append(api.GridFunction(sysm.space(r_), projections=coeffs(nd, i_ > 0), dual_space=sysm.space(d_)))
                    pbm = np.concatenate([g_.projections(sysm.space(d_)) for g_, d_ in zip(bl, sysm.duals)])
                    xm = np.linalg.solve(W.astype(complex), pbm)
                    res.case(("lu-mixed-list", name), nontrivial=True,
                             sample=dict(kind="lu-mixed-real-complex-list", system=sysm.structure(), cond=cond))
                    for label, solver in (("lu", lambda: api.lu(sysm.op, bl)),
                                          ("lu+factors", lambda: api.lu(sysm.op, bl, lu_factor=api.compute_lu_factors(sysm.op))),
                                          ("gmres", lambda: api.gmres(sysm.op, bl, tol=1e-12)[0])):
                        sm = solver()
                        em = float(np.max(np.abs(cvec(sm) - xm))) / max(1e-300, float(np.max(np.abs(xm))))
                        lim = 1e-9 if label != "gmres" else 1e-12 * cond * 1e3
                        if em > lim:
                            res.counterexample("blocked-mixed-real-complex-rhs",
                                               f"{label}(A, [real, complex, ...]) differs from the solution of the stated system by "
                                               f"{em:.3e} (relative, cond {cond:.1f}) for {name}", system=sysm.structure(), error=em)
                except Exception as e:  # noqa
                    res.counterexample("blocked-mixed-real-complex-rhs",
                                       f"solving with a mixed real/complex right-hand side list raises {type(e).__name__}: {e} ({name})",
                                       system=sysm.structure())
            # ---- iterative
            n = W.shape[1]
            routines = ["gmres"] + (["cg"] if fam == "spd" and not sysm.blocked else [])
            for routine in routines:
                for strong in (False, True):
                    if strong and not _strong_ok(sysm):
                        continue
                    # the stated system, built independently
                    pb = np.concatenate([x_.projections(sysm.space(d)) for x_, d in
                                         zip(b if isinstance(b, list) else [b], sysm.duals)])
                    if len(pb) != W.shape[0]:
                        res.counterexample("blocked-projections-slice" if slice_case else "apply-projections-length",
                                           f"A*f carries {len(pb)} projections, the weak form has {W.shape[0]} rows ({name})",
                                           system=sysm.structure())
                        continue
                    if strong:
                        Aref = np.array([_minv_apply(env, sysm, W[:, j]) for j in range(n)]).T
                        bref = _minv_apply(env, sysm, pb)
                    else:
                        Aref, bref = W, pb
                    condA = float(np.linalg.cond(Aref))
                    sym = bool(np.max(np.abs(Aref - Aref.conj().T)) <= 1e-12 * np.max(np.abs(Aref)))
                    if routine == "cg" and not sym:
                        res.count("cg_strong_nonsymmetric_skipped")
                        continue
                    restarted = fam in ("spd", "pd") and (not strong or sysm.rngs == sysm.duals)
                    if routine == "gmres":
                        settings = [(None, None), (max(n, 1), None), (None, 5000)]
                        if restarted:
                            settings += [(5, 5000), (3, 20000)]
                    else:
                        settings = [(None, None), (None, 2000)]
                    if not deep:
                        settings = settings[:1] + rng.sample(settings[1:], 1)
                    for tol, (restart, maxiter) in itertools.product(
                            tols if deep else [tols[0], tols[-1], tols[rng.choice([1, 2, 3])]], settings):
                        kw = dict(tol=tol, use_strong_form=strong, return_residuals=True, return_iteration_count=True)
                        if maxiter is not None:
                            kw["maxiter"] = maxiter
                        if routine == "gmres" and restart is not None:
                            kw["restart"] = restart
                        ckey = (routine, name, cplx, strong, tol, restart, maxiter)
                        res.case(ckey, nontrivial=nt)
                        res.count("oracle_" + routine)
                        res.count("oracle_iterative_" + ("strong" if strong else "weak") + ("_blocked" if sysm.blocked else "_single"))
                        try:
                            with warnings.catch_warnings():
                                warnings.simplefilter("ignore")
                                sol, info, resid, cnt = getattr(api, routine)(sysm.op, b, **kw)
                        except Exception as e:  # noqa
                            res.counterexample(f"{routine}-raises" if not slice_case else "blocked-projections-slice",
                                               f"{routine} raises {type(e).__name__}: {e} for {name} "
                                               f"(strong={strong}, tol={tol})", system=sysm.structure())
                            continue
                        tag = f"{routine} {name} strong={strong} tol={tol} restart={restart} maxiter={maxiter} complex={cplx}"
                        if not spaces_ok(sysm, sol):
                            res.counterexample(f"{routine}-result-space", "result does not live in the domain space(s): " + tag,
                                               system=sysm.structure())
                            continue
                        xs = cvec(sol)
                        bn = float(np.linalg.norm(bref))
                        rel = float(np.linalg.norm(bref - Aref @ xs)) / bn
                        err = float(np.linalg.norm(xs - cf)) / float(np.linalg.norm(cf))
                        if info != 0:
                            res.counterexample(f"{routine}-info-nonzero", f"info={info} for a well-conditioned system: " + tag,
                                               system=sysm.structure(), cond=condA, rel_residual=rel)
                            continue
                        lim = tol * (1 + 1e-6) + 5e-15 if routine == "gmres" else 1.05 * tol + 2e-14
                        worst[routine + "_res"] = max(worst[routine + "_res"], rel / tol)
                        if rel > lim:
                            k_ = "strong-form-system" if strong else f"{routine}-residual"
                            res.counterexample(k_, f"relative residual of the stated system {rel:.3e} > tol: " + tag,
                                               system=sysm.structure(), rel_residual=rel, cond=condA)
                        bound = 4 * condA * tol + 1e-9
                        worst["err_over_bound"] = max(worst["err_over_bound"], err / bound)
                        if err > bound:
                            res.counterexample(f"{routine}-solution", f"solution differs from f by {err:.3e} (bound {bound:.3e}): "
                                               + tag, system=sysm.structure(), error=err, cond=condA)
                        # residual list / count: consistent, and equal to a direct SciPy run on the stated system
                        if len(resid) != cnt or cnt < 1:
                            res.counterexample("iteration-counter", f"{len(resid)} residuals but count {cnt}: " + tag,
                                               system=sysm.structure())
                            continue
                        last = float(resid[-1]) / (1.0 if routine == "gmres" else bn)
                        worst[routine + "_last"] = max(worst[routine + "_last"], last / tol)
                        if last > lim:
                            res.counterexample("last-residual", f"last reported residual {last:.3e} does not meet tol: " + tag,
                                               system=sysm.structure())
                        log = []
                        with warnings.catch_warnings():
                            warnings.simplefilter("ignore")
                            if routine == "gmres":
                                xd, infod = ssl.gmres(Aref, bref, rtol=tol, restart=restart, maxiter=maxiter,
                                                      callback=lambda r_: log.append(abs(r_)))
                            else:
                                xd, infod = ssl.cg(Aref, bref, rtol=tol, maxiter=maxiter,
                                                   callback=lambda x_: log.append(np.linalg.norm(bref - Aref @ x_)))
                        # the direct run uses an independently built dense matrix, so rounding may differ slightly:
                        # counts may differ by a step when a residual sits at the tolerance
                        if infod == 0 and abs(len(log) - cnt) > max(2, cnt // 10):
                            res.counterexample("iteration-counter", f"count {cnt} but a direct SciPy run on the stated system "
                                               f"takes {len(log)} callback calls: " + tag, system=sysm.structure())
                        m_ = min(len(log), cnt, 3)
                        if infod == 0 and m_ and not np.allclose(np.array(resid[:m_], dtype=float),
                                                                 np.array(log[:m_], dtype=float), rtol=1e-6, atol=1e-13 * bn):
                            res.counterexample("residual-sequence", "first reported residuals differ from a direct SciPy run on "
                                               "the stated system: " + tag, system=sysm.structure(),
                                               reported=[float(v) for v in resid[:m_]], direct=[float(v) for v in log[:m_]])
                    # default arguments, no extras: return tuple has two entries
                    res.case((routine, name, cplx, strong, "defaults"), nontrivial=nt)
                    try:
                        with warnings.catch_warnings():
                            warnings.simplefilter("ignore")
                            r2 = getattr(api, routine)(sysm.op, b, use_strong_form=strong)
                    except Exception as e:  # noqa
                        res.counterexample(f"{routine}-raises" if not slice_case else "blocked-projections-slice",
                                           f"{routine} with default arguments raises {type(e).__name__}: {e} for {name}",
                                           system=sysm.structure())
                        continue
                    if len(r2) != 2 or r2[1] != 0 or not spaces_ok(sysm, r2[0]):
                        res.counterexample(f"{routine}-defaults", f"{routine} with default arguments: tuple length {len(r2)}, "
                                           f"info {r2[1]} for {name} strong={strong}", system=sysm.structure())
    # generalized blocked operators (arrays of operators with NON-SQUARE blocks): to_dense, matvec, A*f, lu and gmres against
    # the matrix assembled block by block (seeded change C15-c advanced the column offset of
    # GeneralizedDiscreteBlockedOperator._matmat by the row count of a block)
    try:
        res.merge(_generalized_blocked(env, rng))
    except Exception as e:  # noqa
        res.counterexample("generalized-blocked-raises", f"solving with a GeneralizedBlockedOperator raises "
                           f"{type(e).__name__}: {e}")
    # recorded finding: CG with use_strong_form=True hands SciPy's cg the matrix M^-1 W, which is not symmetric when the
    # element areas differ.  ONE fixed, seed-independent input; reported only while it actually fails.
    try:
        res.merge(_cg_strong_finding(env))
    except Exception as e:  # noqa
        res.counterexample("cg-strong-form-raises", f"cg strong form on the fixed perturbed octahedron raises "
                           f"{type(e).__name__}: {e}")
    res.stats["oracle_worst"] = {k: float(f"{v:.3e}") for k, v in worst.items()}
    return res


def search(ctx, broken):
    return oracle(ctx, deep=True)
