"""C20 — OpenCL and Numba backends define the same kernels and shape functions.

Both sides are TRANSLATED from the source on every run (Tie B): the Numba kernels by symbolic execution of their
`py_func`, the OpenCL C functions by compiling the unmodified headers against a symbolic C++ shim.  The generated
Lean file states, for every OpenCL kernel function, precision, branch outcome, output slot and (class of) vector lane,
that it equals the Numba kernel selected for the same `kernel_type`, as functions over an arbitrary field with
uninterpreted sqrt/cos/sin/exp; each is proved by `ring_nf`."""
import ast
import os
import random
import re
from fractions import Fraction

import numpy as np

from vlib import symtrace as st
from vlib import tables as T
from vlib.common import LEAN, GenError, Result
from props import kernels_gen, cl_gen

PID = "C20"
LEAN_MODULES = ["BemppVerif.Props.C20"]
THEOREMS = []  # filled by generate()
PARTIAL = {}
TRUSTED = [
    "Tie B translators: vlib/symtrace.py (Python tracer), vlib/opencl_shim.h + props/cl_gen.py (g++ symbolic shim), "
    "the Lean printer; g++'s and CPython's semantics for the traced arithmetic",
    "OpenCL built-ins are modelled as: rsqrt x = 1/sqrt x, distance/length/dot by their definitions, native_* = exact",
    "lane and precision classes are merged when their traced terms are syntactically identical up to renaming of "
    "the lane's variables (checked by the translator); one theorem is proved per class",
    "M_INV_4PI is a symbol in the theorems; its numeric values in both sources are compared separately (Gen constants)",
    "float rounding / OpenCL compiler accuracy not modelled; the numeric oracle compares the traced OpenCL terms with the "
    "compiled Numba kernels at random points",
]
ASSUMPTIONS = ["x != y (distance non-zero) for the FMM helper kernels' zero-distance fix-up branch"]
RULE = ("one obligation per (OpenCL function, branch of k_im != 0, output slot, lane/precision class); numeric oracle: "
        "random point pairs at distances 1e-3..1e3, random unit normals, real/complex wavenumbers; non-trivial when "
        "distance <= 1e-2 or >= 1e2 or the wavenumber is complex; distinct by (kernel, width, sample index)")
LEVEL_TEXT = ("Lean 4 theorems generated from BOTH sources on every run: each of the 48 OpenCL kernel functions (12 families x "
              "novec/vec4/vec8/vec16, both precisions, both outcomes of the k_im != 0 branch, every output slot and lane) equals "
              "the Numba kernel that the selection tables pair it with, as real functions for ALL points, normals and "
              "wavenumbers (uninterpreted sqrt/cos/sin/exp), proved by ring_nf; helmholtz_gradient equals the gradient "
              "components of the FMM helper kernel; the four OpenCL shapesets equal the Numba shapesets; the selection "
              "dictionaries have the same keys.")
LEVEL_NOTE = ("full for real arithmetic; rounding, native_* accuracy and the OpenCL compiler are not modelled (numeric oracle). "
              "Trusted: Lean kernel, the two tracers and the term printer, g++/CPython semantics.")
TECHNIQUE = "Lean 4 proof (ring_nf) over terms translated from both sources by symbolic tracing"

ARGS = kernels_gen.ARGS
_STATE = {}


def _strip_width(fname):
    m = re.match(r"(.*)_(novec|vec4|vec8|vec16)$", fname)
    if not m:
        return None, None
    return m.group(1), m.group(2)


def _rename_lane(t, lane):
    k = t[0]
    if k == "var":
        m = re.match(r"(y|ny)(\d)_(\d+)$", t[1])
        if m:
            if int(m.group(3)) != lane:
                return ("var", f"OTHERLANE_{t[1]}")
            return ("var", m.group(1) + m.group(2))
        return t
    if k in ("add", "sub", "mul", "div"):
        return (k, _rename_lane(t[1], lane), _rename_lane(t[2], lane))
    if k == "neg":
        return (k, _rename_lane(t[1], lane))
    if k == "pow":
        return (k, _rename_lane(t[1], lane), t[2])
    if k == "fn":
        return (k, t[1], _rename_lane(t[2], lane))
    return t


def _dict_literal(tree, func, var):
    """{key: value-name-or-string} of `var = {...}` inside function `func`."""
    fn = T.find_function(tree, func)
    for node in ast.walk(fn):
        if isinstance(node, ast.Assign) and len(node.targets) == 1 and isinstance(node.targets[0], ast.Name) \
                and node.targets[0].id == var and isinstance(node.value, ast.Dict):
            out = {}
            for k, v in zip(node.value.keys, node.value.values):
                key = k.value
                if isinstance(v, ast.Name):
                    out[key] = v.id
                elif isinstance(v, ast.Constant):
                    out[key] = v.value
                else:
                    raise GenError(f"{func}.{var}[{key}] is not a name or string")
            return out
    raise GenError(f"dictionary {var} not found in {func}")


def _trace_fmm_helpers():
    import bempp_cl.api.fmm.helpers as h
    out = {}
    saved = h.M_INV_4PI
    h.M_INV_4PI = st.Sym.var("c4pi")
    st.Sym.default_assume = "nonzero"
    try:
        for name in ("laplace_kernel", "modified_helmholtz_kernel", "helmholtz_kernel"):
            for mode in ("zero", "nonzero"):
                x = kernels_gen._vars("x")
                y = kernels_gen._vars("y")
                p0 = st.Sym.var("p0")
                p1 = 0.0 if mode == "zero" else st.Sym.var("p1", "nonzero")
                params = kernels_gen._obj([p0, p1], (2,))
                f = getattr(h, name)
                py = getattr(f, "py_func", f)
                r = py(kernels_gen._obj(x, (3, 1)), kernels_gen._obj(y, (3, 1)), params, np.dtype(object), object)
                r = np.asarray(r, dtype=object).ravel()
                if r.shape != (4,):
                    raise GenError(f"fmm helper {name}: output shape {r.shape}")
                out[(name, "im0" if mode == "zero" else "imnz")] = [st.parts(v) for v in r]
    except st.TraceError as e:
        raise GenError(f"tracing fmm helpers failed: {e}")
    finally:
        h.M_INV_4PI = saved
        st.Sym.default_assume = None
    return out


def _trace_shapesets():
    import bempp_cl.api.space.shapesets as sh
    out = {}
    u, v = st.Sym.var("u"), st.Sym.var("v")
    for name, spec in sh._SHAPESETS.items():
        f = spec["evaluate"]
        py = getattr(f, "py_func", f)
        r = np.asarray(py(kernels_gen._obj([u, v], (2, 1))), dtype=object)
        dim, nshape = r.shape[0], r.shape[1]
        out[name] = {(c, i): st.Sym.lift(r[c, i, 0]).t for c in range(dim) for i in range(nshape)}
    return out


def _float_consts():
    """M_INV_4PI in the three sources as exact rationals."""
    txt = T.src("bempp_cl/core/sources/include/bempp_base_types.h")
    m0 = re.search(r"#if PRECISION == 0(.*?)#endif", txt, re.S)
    m1 = re.search(r"#if PRECISION == 1(.*?)#endif", txt, re.S)
    if not m0 or not m1:
        raise GenError("PRECISION blocks not found in bempp_base_types.h")
    f = re.search(r"#define M_INV_4PI\s+([0-9.eE+-]+)f", m0.group(1))
    d = re.search(r"#define M_INV_4PI\s+([0-9.eE+-]+)\s", m1.group(1))
    if not f or not d:
        raise GenError("M_INV_4PI literals not found")
    import struct
    single = struct.unpack("f", struct.pack("f", float(f.group(1))))[0]
    double = float(d.group(1))
    tree = T.parse("bempp_cl/core/numba_kernels.py")
    node = T.module_assign(tree, "M_INV_4PI")
    src = ast.unparse(node)
    if src.replace(" ", "") not in ("1.0/(4*_np.pi)", "1/(4*_np.pi)", "1.0/(4.0*_np.pi)"):
        raise GenError(f"numba_kernels.M_INV_4PI is defined as `{src}`, not 1/(4*pi)")
    nb = 1.0 / (4 * np.pi)
    return Fraction(single), Fraction(double), Fraction(nb)


def gen_fmm_kernels():
    """Gen/FmmKernels.lean: traces of the Numba FMM helper kernels (api/fmm/helpers.py) and of the Numba shapesets.  Used by
    C20 (OpenCL = Numba) and by C17 (near-field kernels = the dense assembler's kernels, Lemmas/FmmKernelFacts.lean)."""
    fmm = _trace_fmm_helpers()
    shp = _trace_shapesets()
    lines = [
        "-- GENERATED by props/c20.py by tracing bempp_cl/api/fmm/helpers.py and api/space/shapesets.py -- do not edit",
        "import Mathlib.Algebra.Field.Defs",
        "namespace BemppVerif.Gen.FmmKernels",
        "set_option linter.unusedVariables false",
        "",
    ]
    FARGS = "x0 x1 x2 y0 y1 y2 p0 p1"
    for (name, branch), comps in sorted(fmm.items()):
        for i, (re_, im_) in enumerate(comps):
            lines.append(f"def fmm_{name}_{branch}_c{i}_re {{K : Type}} [Field K] (sqrt cos sin exp : K → K) (c4pi : K) ({FARGS} : K) : K :=\n  " + st.to_lean(re_))
            lines.append(f"def fmm_{name}_{branch}_c{i}_im {{K : Type}} [Field K] (sqrt cos sin exp : K → K) (c4pi : K) ({FARGS} : K) : K :=\n  " + st.to_lean(im_))
    for name, comps in sorted(shp.items()):
        for (c, i), term in sorted(comps.items()):
            lines.append(f"def nb_shape_{name}_c{c}_f{i} {{K : Type}} [Field K] (u v : K) : K :=\n  " + st.to_lean(term))
    lines += ["end BemppVerif.Gen.FmmKernels", ""]
    ch2 = T.write_if_changed(os.path.join(LEAN, "BemppVerif/Gen/FmmKernels.lean"), "\n".join(lines))

    return fmm, shp, ch2


def generate(ctx):
    info, nb = kernels_gen.generate()
    cl, knames, snames = cl_gen.trace_all()
    fmm, shp, ch2 = gen_fmm_kernels()
    try:
        nk_tree = T.parse("bempp_cl/core/numba_kernels.py")
        ck_tree = T.parse("bempp_cl/core/opencl_kernels.py")
        nb_reg = _dict_literal(nk_tree, "select_numba_kernels", "kernel_functions_regular")
        cl_tab = _dict_literal(ck_tree, "select_cl_kernel", "kernels")
    except (T.ExtractError, SyntaxError, OSError) as e:
        raise GenError(f"selection tables: {e}")
    csingle, cdouble, cnumba = _float_consts()

    defs, thms, names = [], [], []
    covered = {}
    # ---- OpenCL definitions, one per class of (precision, lane)
    families = {}
    for (fname, prec, branch), slots in cl.items():
        base, width = _strip_width(fname)
        if base is None:
            continue
        families.setdefault((base, width, branch), {})[prec] = slots
    cl_defs = {}  # (base,width,branch,slot) -> list of (defname, members)
    for (base, width, branch), byprec in sorted(families.items()):
        slotset = sorted({s for p in byprec.values() for (s, l) in p})
        for slot in slotset:
            classes = []
            for prec, slots in sorted(byprec.items()):
                for (s, lane), term in sorted(slots.items()):
                    if s != slot:
                        continue
                    rt = _rename_lane(term, lane)
                    if any(v.startswith("OTHERLANE_") for v in st.free_vars(rt)):
                        # lane reads another lane's data: keep as its own class with full variable names
                        rt = ("var", "LANE_CROSSTALK")
                    for c in classes:
                        if c[0] == rt:
                            c[1].append((prec, lane))
                            break
                    else:
                        classes.append((rt, [(prec, lane)]))
            for ci, (term, members) in enumerate(classes):
                dn = f"cl_{base}_{width}_{branch}_s{slot}" + ("" if ci == 0 else f"_class{ci}")
                cl_defs.setdefault((base, width, branch, slot), []).append((dn, members, term))
    lines = [
        "-- GENERATED by props/c20.py by tracing the OpenCL headers with g++ against vlib/opencl_shim.h -- do not edit",
        "import Mathlib.Algebra.Field.Defs",
        "namespace BemppVerif.Gen.ClKernels",
        "set_option linter.unusedVariables false",
        "",
    ]
    for key, lst in sorted(cl_defs.items()):
        for dn, members, term in lst:
            lines.append(f"/-- classes merged: {len(members)} (precision, lane) pairs -/")
            lines.append(f"def {dn} {{K : Type}} [Field K] (sqrt cos sin exp : K → K) (c4pi : K) ({' '.join(ARGS)} : K) : K :=\n  " + st.to_lean(term))
    for sname in snames:
        slots = cl.get((sname, 1, "im0"), {})
        s0 = cl.get((sname, 0, "im0"), {})
        if slots != s0:
            raise GenError(f"shapeset {sname}: single and double precision traces differ")
        for (slot, lane), term in sorted(slots.items()):
            lines.append(f"def cl_{sname}_s{slot} {{K : Type}} [Field K] (u v : K) : K :=\n  " + st.to_lean(term))
    lines += ["end BemppVerif.Gen.ClKernels", ""]
    ch1 = T.write_if_changed(os.path.join(LEAN, "BemppVerif/Gen/ClKernels.lean"), "\n".join(lines))
    # ---- theorems
    TH = [
        "-- GENERATED by props/c20.py -- do not edit.  One theorem per OpenCL kernel function / branch / slot / class.",
        "import BemppVerif.Gen.NumbaKernels",
        "import BemppVerif.Gen.ClKernels",
        "import BemppVerif.Gen.FmmKernels",
        "import Mathlib.Tactic.Ring",
        "namespace BemppVerif.C20",
        "open BemppVerif.Gen.NumbaKernels BemppVerif.Gen.ClKernels BemppVerif.Gen.FmmKernels",
        "set_option linter.unusedVariables false",
        "section",
        "variable {K : Type} [Field K] (sqrt cos sin exp : K → K) (c4pi : K)",
        "",
    ]
    FN = "sqrt cos sin exp c4pi"
    A = " ".join(ARGS)

    def nb_name(kt, branch, part):
        fn = nb_reg[kt]
        if fn not in nb:
            raise GenError(f"numba kernel {fn} (kernel_type {kt}) was not traced")
        v = nb[fn]
        suf = "" if "" in v else "_" + branch
        return f"{fn}{suf}_{part}", v[suf if suf else ""][0 if part == "re" else 1]

    samples = []
    if set(nb_reg) != set(cl_tab):
        _STATE["table_mismatch"] = sorted(set(nb_reg) ^ set(cl_tab))
    else:
        _STATE["table_mismatch"] = []
    for kt in sorted(set(nb_reg) & set(cl_tab)):
        base = cl_tab[kt]
        for width in ("novec", "vec4", "vec8", "vec16"):
            for branch in ("im0", "imnz"):
                slots = sorted(s for (b, w, br, s) in cl_defs if (b, w, br) == (base, width, branch))
                if not slots:
                    raise GenError(f"OpenCL function {base}_{width} (kernel_type {kt}) not found / not traced")
                nbre, tre = nb_name(kt, branch, "re")
                nbim, tim = nb_name(kt, branch, "im")
                is_complex = tim != ("const", Fraction(0))
                want = [0, 1] if is_complex else [0]
                if slots != want:
                    raise GenError(f"{base}_{width}: OpenCL writes result slots {slots}, Numba kernel is "
                                   f"{'complex' if is_complex else 'real'}")
                for slot in slots:
                    for dn, members, term in cl_defs[(base, width, branch, slot)]:
                        tn = dn.replace("cl_", "cl_eq_numba_", 1)
                        rhs = nbre if slot == 0 else nbim
                        TH.append(f"theorem {tn} ({A} : K) :\n    {dn} {FN} {A} = {rhs} {FN} {A} := by\n"
                                  f"  simp only [{dn}, {rhs}] <;> ring_nf")
                        names.append(f"BemppVerif.C20.{tn}")
                        covered.setdefault(kt, 0)
                        covered[kt] += len(members)
                        if len(samples) < 4:
                            samples.append(dict(theorem=tn, kernel_type=kt, opencl=f"{base}_{width}", numba=nb_reg[kt],
                                                lanes_and_precisions=len(members)))
    # helmholtz_gradient vs the FMM helper's target gradient
    for width in ("novec", "vec4", "vec8", "vec16"):
        for branch in ("im0", "imnz"):
            for i in range(3):
                for j, part in enumerate(("re", "im")):
                    key = ("helmholtz_gradient", width, branch, 2 * i + j)
                    if key not in cl_defs:
                        raise GenError(f"helmholtz_gradient_{width} slot {2*i+j} not traced")
                    for dn, members, term in cl_defs[key]:
                        tn = dn.replace("cl_", "cl_eq_fmm_", 1)
                        rhs = f"fmm_helmholtz_kernel_{branch}_c{1+i}_{part}"
                        TH.append(f"theorem {tn} ({A} : K) :\n    {dn} {FN} {A} = {rhs} {FN} x0 x1 x2 y0 y1 y2 p0 p1 := by\n"
                                  f"  simp only [{dn}, {rhs}] <;> ring_nf")
                        names.append(f"BemppVerif.C20.{tn}")
    TH += ["end", ""]
    # shapesets
    pairs = {"p0_discontinuous_evaluate": ("p0_discontinuous", 1, 1), "p1_discontinuous_evaluate": ("p1_discontinuous", 1, 3),
             "rwg0_evaluate": ("rwg0", 2, 3), "snc0_evaluate": ("snc0", 2, 3)}
    for cname, (nname, dim, nshape) in pairs.items():
        if nname not in shp:
            raise GenError(f"numba shapeset {nname} missing")
        for i in range(nshape):
            for c in range(dim):
                slot = dim * i + c
                tn = f"cl_shapeset_eq_{nname}_f{i}_c{c}"
                TH.append(f"theorem {tn} {{K : Type}} [Field K] (u v : K) : cl_{cname}_s{slot} u v = nb_shape_{nname}_c{c}_f{i} u v := by\n"
                          f"  simp only [cl_{cname}_s{slot}, nb_shape_{nname}_c{c}_f{i}] <;> ring_nf")
                names.append(f"BemppVerif.C20.{tn}")
    # selection tables and constants
    keys_nb = "[" + ", ".join(f'"{k}"' for k in sorted(nb_reg)) + "]"
    keys_cl = "[" + ", ".join(f'"{k}"' for k in sorted(cl_tab)) + "]"
    TH.append(f"def numbaKernelTypes : List String := {keys_nb}")
    TH.append(f"def openclKernelTypes : List String := {keys_cl}")
    TH.append("/-- both backends define a kernel for exactly the same kernel types -/")
    TH.append("theorem selection_tables_agree : numbaKernelTypes = openclKernelTypes := by decide")
    names.append("BemppVerif.C20.selection_tables_agree")

    def rat(q):
        return f"(({q.numerator} : Int), ({q.denominator} : Nat))"
    TH.append(f"def mInv4PiNumba : Int × Nat := {rat(cnumba)}")
    TH.append(f"def mInv4PiClDouble : Int × Nat := {rat(cdouble)}")
    TH.append(f"def mInv4PiClSingle : Int × Nat := {rat(csingle)}")
    TH.append("/-- the double-precision OpenCL constant is the same binary64 number as Numba's 1/(4π) -/")
    TH.append("theorem m_inv_4pi_double_same : mInv4PiClDouble = mInv4PiNumba := by decide")
    TH.append("/-- the single-precision OpenCL constant is within 2^-23 relative of it (one unit in the last place of binary32) -/")
    TH.append("theorem m_inv_4pi_single_close :\n    (mInv4PiClSingle.1 * mInv4PiNumba.2 - mInv4PiNumba.1 * mInv4PiClSingle.2).natAbs * 2 ^ 23\n"
              "      ≤ mInv4PiNumba.1.natAbs * mInv4PiClSingle.2 := by decide")
    names += ["BemppVerif.C20.m_inv_4pi_double_same", "BemppVerif.C20.m_inv_4pi_single_close"]
    TH += ["end BemppVerif.C20", ""]
    ch3 = T.write_if_changed(os.path.join(LEAN, "BemppVerif/Gen/C20Theorems.lean"), "\n".join(TH))
    THEOREMS[:] = names
    _STATE.update(nb=nb, cl=cl, cl_defs=cl_defs, nb_reg=nb_reg, cl_tab=cl_tab, samples=samples, fmm=fmm)
    return dict(numba_kernels=info, opencl_functions=len(knames), opencl_traces=len(cl), theorems=len(names),
                lanes_precisions_covered=covered, changed=[ch1, ch2, ch3], table_key_mismatch=_STATE["table_mismatch"])


# ------------------------------------------------------------------------------------------------


def _rand_inputs(rng, scale):
    x = [rng.uniform(-1, 1) for _ in range(3)]
    d = [rng.gauss(0, 1) for _ in range(3)]
    n = sum(v * v for v in d) ** 0.5
    y = [x[i] + scale * d[i] / n for i in range(3)]

    def unit():
        v = [rng.gauss(0, 1) for _ in range(3)]
        m = sum(a * a for a in v) ** 0.5
        return [a / m for a in v]
    nx, ny = unit(), unit()
    return x, y, nx, ny


def _env(x, y, nx, ny, p0, p1):
    env = {"c4pi": 1.0 / (4 * np.pi), "p0": p0, "p1": p1}
    for i in range(3):
        env[f"x{i}"], env[f"y{i}"], env[f"nx{i}"], env[f"ny{i}"] = x[i], y[i], nx[i], ny[i]
    return env


def correspondence(ctx):
    """Validation of the tracer (Tie B): the compiled Numba kernels against their traced terms at random points."""
    res = Result()
    if "nb" not in _STATE:
        res.disagree("translator did not run")
        return res
    import bempp_cl.core.numba_kernels as nk
    rng = ctx.rng
    nb = _STATE["nb"]
    n = ctx.pick(6, 60)
    for name, variants in sorted(nb.items()):
        f = getattr(nk, name)
        singular = name in kernels_gen.SINGULAR
        for s in range(n):
            scale = 10 ** rng.uniform(-3, 3)
            x, y, nx, ny = _rand_inputs(rng, scale)
            p0 = rng.uniform(-3, 3) / max(scale, 1.0)
            p1 = 0.0 if (s % 2 == 0 or "" in variants) else rng.choice((-1.0, 1.0)) * rng.uniform(0.1, 2) / max(scale, 1.0)
            if "modified" in name:
                p0 = abs(p0)
            params = np.array([p0, p1])
            if singular:
                out = f(np.array(x).reshape(3, 1), np.array(y).reshape(3, 1), np.array(nx), np.array(ny), params)
            else:
                out = f(np.array(x), np.array(y).reshape(3, 1), np.array(nx), np.array(ny).reshape(3, 1), params)
            got = complex(out[0])
            key = "" if "" in variants else ("_im0" if p1 == 0 else "_imnz")
            re_, im_ = variants[key]
            env = _env(x, y, nx, ny, p0, p1)
            want = complex(st.evaluate(re_, env), st.evaluate(im_, env))
            tol = 1e-11 * max(abs(want), 1e-300) * (1 + abs(p0) * scale + abs(p1) * scale)
            res.case((name, s), nontrivial=(scale <= 1e-2 or scale >= 1e2 or p1 != 0),
                     sample=dict(kernel=name, dist=scale, k=[p0, p1], value=[got.real, got.imag]) if s == 0 else None)
            if abs(got - want) > tol:
                res.disagree("numba kernel vs its trace", kernel=name, inputs=env, compiled=[got.real, got.imag],
                             traced=[want.real, want.imag])
    return res


def oracle(ctx, deep=False):
    """The property itself, numerically: traced OpenCL terms (all lanes, both precisions) against the compiled Numba
    kernels.  Tolerance: 1e-10 relative to the kernel magnitude times the condition number of the phase."""
    res = Result()
    if "cl" not in _STATE:
        return res
    import bempp_cl.core.numba_kernels as nk
    rng = random.Random(ctx.seed + 17)
    cl, nb_reg, cl_tab = _STATE["cl"], _STATE["nb_reg"], _STATE["cl_tab"]
    if _STATE.get("table_mismatch"):
        res.counterexample("selection-table-keys", f"kernel types {_STATE['table_mismatch']} are defined by only one backend")
    npts = 40 if (deep or ctx.thorough) else 5
    for kt in sorted(set(nb_reg) & set(cl_tab)):
        f = getattr(nk, nb_reg[kt], None)
        if f is None:
            continue
        for width in ("novec", "vec4", "vec8", "vec16"):
            w = 1 if width == "novec" else int(width[3:])
            fname = f"{cl_tab[kt]}_{width}"
            bad = None
            for s in range(npts):
                scale = 10 ** rng.uniform(-3, 3)
                x, _, nx, _ = _rand_inputs(rng, scale)
                p0 = rng.uniform(-3, 3) / max(scale, 1.0)
                p1 = 0.0 if s % 2 == 0 else rng.choice((-1.0, 1.0)) * rng.uniform(0.1, 2) / max(scale, 1.0)
                if "modified" in kt:
                    p0 = abs(p0)
                branch = "im0" if p1 == 0 else "imnz"
                lanes = [_rand_inputs(rng, scale) for _ in range(w)]
                env = {"c4pi": 1.0 / (4 * np.pi), "p0": p0, "p1": p1}
                for i in range(3):
                    env[f"x{i}"], env[f"nx{i}"] = x[i], nx[i]
                ys, nys = [], []
                for l, (xx, yy, _, nyy) in enumerate(lanes):
                    yl = [x[i] + (yy[i] - xx[i]) for i in range(3)]
                    ys.append(yl)
                    nys.append(nyy)
                    for i in range(3):
                        env[f"y{i}_{l}"], env[f"ny{i}_{l}"] = yl[i], nyy[i]
                        if w == 1:
                            env[f"y{i}"], env[f"ny{i}"] = yl[i], nyy[i]
                out = f(np.array(x), np.array(ys).T.copy(), np.array(nx), np.array(nys).T.copy(), np.array([p0, p1]))
                for prec in (0, 1):
                    slots = cl.get((fname, prec, branch))
                    if slots is None:
                        continue
                    for l in range(w):
                        re_ = st.evaluate(slots[(0, l)], env)
                        im_ = st.evaluate(slots[(1, l)], env) if (1, l) in slots else 0.0
                        got = complex(re_, im_)
                        want = complex(out[l])
                        tol = 1e-10 * max(abs(want), 1e-300) * (1 + (abs(p0) + abs(p1)) * scale)
                        res.case((kt, width, s, l, prec), nontrivial=(scale <= 1e-2 or scale >= 1e2 or p1 != 0))
                        if abs(got - want) > tol and bad is None:
                            bad = dict(kernel_type=kt, opencl=fname, precision=prec, lane=l, inputs=env,
                                       opencl_value=[got.real, got.imag], numba_value=[want.real, want.imag])
            if bad:
                res.counterexample(f"cl-vs-numba-{kt}-{width}", f"OpenCL {fname} differs from Numba {nb_reg[kt]} at a "
                                   f"concrete point (lane {bad['lane']}, precision {bad['precision']})", **bad)
    # helmholtz_gradient (all widths, lanes, precisions) against the COMPILED FMM helper kernel's target gradient
    import bempp_cl.api.fmm.helpers as fh
    for width in ("novec", "vec4", "vec8", "vec16"):
        w = 1 if width == "novec" else int(width[3:])
        bad = None
        for s in range(npts):
            scale = 10 ** rng.uniform(-2, 2)
            x, _, nx, _ = _rand_inputs(rng, scale)
            p0 = rng.uniform(-3, 3) / max(scale, 1.0)
            p1 = 0.0 if s % 2 == 0 else rng.choice((-1.0, 1.0)) * rng.uniform(0.1, 2) / max(scale, 1.0)
            branch = "im0" if p1 == 0 else "imnz"
            env = {"c4pi": 1.0 / (4 * np.pi), "p0": p0, "p1": p1}
            ys = []
            for l in range(w):
                _, yy, _, nyy = _rand_inputs(rng, scale)
                xx = _rand_inputs(rng, scale)[0]
                yl = [x[i] + (yy[i] - xx[i]) for i in range(3)]
                ys.append(yl)
                for i in range(3):
                    env[f"x{i}"], env[f"nx{i}"] = x[i], nx[i]
                    env[f"y{i}_{l}"], env[f"ny{i}_{l}"] = yl[i], nyy[i]
                    if w == 1:
                        env[f"y{i}"], env[f"ny{i}"] = yl[i], nyy[i]
            ref = fh.helmholtz_kernel(np.array(x).reshape(3, 1), np.array(ys).T.copy(), np.array([p0, p1]),
                                      np.dtype("float64"), np.dtype("complex128"))
            for prec in (0, 1):
                slots = cl.get((f"helmholtz_gradient_{width}", prec, branch))
                if slots is None:
                    continue
                for l in range(w):
                    for i in range(3):
                        got = complex(st.evaluate(slots[(2 * i, l)], env), st.evaluate(slots[(2 * i + 1, l)], env))
                        want = complex(ref[4 * l + 1 + i])
                        tol = 1e-10 * max(abs(want), 1e-300) * (1 + (abs(p0) + abs(p1)) * scale)
                        res.case(("grad", width, s, l, i, prec), nontrivial=(p1 != 0))
                        if abs(got - want) > tol and bad is None:
                            bad = dict(opencl=f"helmholtz_gradient_{width}", precision=prec, lane=l, component=i, inputs=env,
                                       opencl_value=[got.real, got.imag], fmm_helper_value=[want.real, want.imag])
        if bad:
            res.counterexample(f"cl-vs-fmm-helmholtz_gradient-{width}", f"OpenCL helmholtz_gradient_{width} differs from the "
                               f"gradient of the Numba FMM helper kernel helmholtz_kernel at a concrete point", **bad)
    res.samples = (_STATE.get("samples") or []) + res.samples
    return res


def search(ctx, broken):
    return oracle(ctx, deep=True)
