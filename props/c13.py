"""C13 — Sparse operators, projections and integrals are exact L2 quantities."""
from vlib.common import Result
from props import shared

PID = "C13"
LEAN_MODULES = ['BemppVerif.Props.C13', 'BemppVerif.Gen.AsmMatch', 'BemppVerif.Props.C12Tables']
N = "BemppVerif.C13."
THEOREMS = []
PARTIAL = {N + "p1_local_mass": "closed forms are proved for P1 x P1 (any rule exact to degree 2); the traced Laplace-Beltrami "
           "local blocks equal ie_e sum_q w_q grad_i.grad_j (generated; the multipliers are applied outside the kernel, in "
           "SparseAssembler.assemble, which is not traced); RWG/SNC Gram forms, _vector_grad_product / _curl_curl_product, projections of callables, integrate/l2_norm/evaluate_* and MultiplicationOperator are "
           "covered by the numerical oracle only"}
TRUSTED = [
    "Tie B: assembler tracing (vlib/asmtrace.py, props/asm_gen.py) and kernel tracing (props/kernels_gen.py): the generated "
    "theorems are about terms recorded while running the undecorated source of the real functions",
    "hand model Model/Asm.lean tied to the source by the generated AsmMatch theorems (symbolic, one generic configuration)",
    "classical analysis that is used but not formalised is named in PARTIAL",
]
ASSUMPTIONS = ['the tabulated triangle rules have the exact moments to 1e-14 (C12 tri_exact)']
RULE = 'correspondence: compiled assemblers vs their traces at random numeric configurations (Tie B validation); oracle: props/c13_oracle.py'
LEVEL_TEXT = "Lean 4 theorems: the sparse assembler's local identity matrix equals the trace of the real sparse kernel + basis evaluator (generated), is ie(1+delta_ij)/24 for P1 x P1 for every rule exact to degree 2, sums to the element area, and x'Mx is a weighted sum of squares (PSD) for non-negative weights; 36 generated theorems: every local block of the traced default_sparse_kernel + laplace_beltrami_kernel (+ the real P1 surface-gradient evaluator) on P1 and DP1 equals ie_e sum_q w_q (jac_inv_trans grad_i).(jac_inv_trans grad_j) with e the element (not the position in the element list)."
LEVEL_NOTE = 'partial: only the P1/P0 identity closed forms are theorems; the rest of the statement is oracle-only.'
TECHNIQUE = 'Lean 4 proof (closed forms, sum of squares, generated trace-match) + numerical oracle'


def generate(ctx):
    info = dict(kernels=shared.gen_kernels()[0], asm=shared.gen_asm()[0])
    THEOREMS[:] = ([N + t for t in ("p1_local_mass", "p1_local_mass_sums_to_area", "local_identity_psd")]
                   + shared.asm_theorems("identity_matches") + shared.mx_theorems("C13") + ["BemppVerif.C12.tri_exact"])
    return info


def correspondence(ctx):
    return shared.trace_validation(ctx, PID)


def oracle(ctx, deep=False):
    f = shared.load_oracle(PID)
    if f is None:
        r = Result()
        r.notes.append("props/c13_oracle.py not present: no numerical oracle run")
        return r
    return f(ctx, deep)


def search(ctx, broken):
    return oracle(ctx, deep=True)
