"""C12 — quadrature rules have their stated degree of exactness."""
import itertools
import math
from fractions import Fraction as F

from vlib.common import Result, run_driver, build_driver, GenError
from props import c12_gen

PID = "C12"
LEAN_MODULES = ["BemppVerif.Props.C12Tables", "BemppVerif.Props.C12", "BemppVerif.Props.C12Duffy"]
N = "BemppVerif.C12."
THEOREMS = [N + t for t in [
    "tri_exact_all", "tri_exact", "gauss_exact_all", "gauss_exact", "gauss_interior_all",
    "tri_rule_rejects", "gauss_rule_rejects", "tri_slices_in_range", "gauss_slices_in_range",
    "duffy_exact_upto3_partial",
    "duffy_count", "vertex_adjacent_exact", "fixup_maps_triangle", "coincident_regions_swap",
    "coincident_rule_swap_invariant", "remap_vertex_bary", "remap_edge_bary", "remap_edge_rejects",
    "edge_check", "coincident_check", "edge_adjacent_exact", "coincident_exact",
]]
PARTIAL = {
    N + "duffy_exact_upto3_partial": "kernel computation on the TABULATED rule for n = 2,3 (tolerance 1e-13); the "
    "all-n theorems edge_adjacent_exact / coincident_exact (exact 1-D moments, monomials of total degree <= 6, proved by "
    "reflection) and vertex_adjacent_exact (all degrees) cover every order; degrees 7..2n-4 for n >= 6 are not proved for "
    "the edge-adjacent and coincident rules",
    N + "vertex_adjacent_exact": "stated for a 1-D rule with exact moments; the tabulated Gauss rule has them to 1e-14 "
    "(gauss_exact), the perturbation argument is not formalised",
}
TRUSTED = [
    "Tie A translator props/c12_gen.py (ast extraction of the literal tables and of the range guards of rule())",
    "hand model lean/BemppVerif/Model/Quad.lean of the slicing in rule(), of duffy_galerkin.rule and of the remaps, "
    "tied by exact differential comparison through the native driver",
    "geometric convergence of the singular rules for 1/|x-y| is checked by the numerical oracle only",
]
ASSUMPTIONS = ["tolerance 1e-14 on moments of the tabulated rules (the tables carry 15-16 digits)"]
RULE = ("correspondence: rule(n) for every n in -3..34 (tri, gauss), duffy rule for random dyadic 1-D rules and the "
        "tabulated rule (n<=3), all remaps on random dyadic points; a case is non-trivial when order>=5, the remap is "
        "not the identity, or the 1-D rule is not the tabulated one; distinct by (kind, order/adjacency, rule id)")


def generate(ctx):
    return c12_gen.generate()


def _imp():
    from bempp_cl.api.integration import triangle_gauss, gauss, duffy_galerkin
    return triangle_gauss, gauss, duffy_galerkin


def _call(f, *a):
    try:
        return "ok", f(*a)
    except ValueError:
        return "value-error", None
    except Exception as e:  # noqa
        return "other-error:" + type(e).__name__, None


def _rat(x):
    fr = F(x)
    return f"{fr.numerator}/{fr.denominator}" if fr.denominator != 1 else str(fr.numerator)


def _parse(tok):
    return F(tok)


def correspondence(ctx):
    res = Result()
    tg, g, dg = _imp()
    build_driver()
    reqs, expect = [], []

    def add(line, handler):
        reqs.append(line)
        expect.append(handler)

    # 1. triangle rules, all orders incl. rejected ones
    for n in range(-3, 25):
        st, val = _call(tg.rule, n)

        def h(ans, n=n, st=st, val=val):
            t = ans.split()
            if st != "ok":
                ok = t[:2] == ["err", "value-error"] and st == "value-error"
                if not ok:
                    res.disagree("tri-rule status", order=n, impl=st, model=ans[:60])
                return
            if t[0] != "ok":
                res.disagree("tri-rule status", order=n, impl="ok", model=ans[:60])
                return
            k = int(t[1])
            pts, w = val
            if pts.shape != (2, k) or w.shape != (k,):
                res.disagree("tri-rule shape", order=n, impl=list(pts.shape), model=k)
                return
            mp = [int(x) for x in t[2:2 + 2 * k]]
            mw = [int(x) for x in t[2 + 2 * k:]]
            for i in range(k):
                if F(float(pts[0, i])) * 2**70 != mp[2 * i] or F(float(pts[1, i])) * 2**70 != mp[2 * i + 1] \
                        or F(float(w[i])) * 2**71 != mw[i]:
                    res.disagree("tri-rule value", order=n, index=i)
                    return
        add(f"tri {n}", h)
        res.case(("tri", n), nontrivial=n >= 5 or n < 1, sample=dict(kind="tri", order=n, status=st))
    # 2. gauss rules
    for n in range(-3, 35):
        st, val = _call(g.rule, n)

        def h(ans, n=n, st=st, val=val):
            t = ans.split()
            if st != "ok":
                if not (t[:2] == ["err", "value-error"] and st == "value-error"):
                    res.disagree("gauss-rule status", order=n, impl=st, model=ans[:60])
                return
            if t[0] != "ok":
                res.disagree("gauss-rule status", order=n, impl="ok", model=ans[:60])
                return
            k = int(t[1])
            xs, ws = val
            if len(xs) != k or len(ws) != k:
                res.disagree("gauss-rule shape", order=n)
                return
            mx = [F(int(x), 2**71) for x in t[2:2 + k]]
            mw = [F(int(x), 2**71) for x in t[2 + k:]]
            for i in range(k):
                if abs(F(float(xs[i])) - mx[i]) > F(1, 2**52) or F(float(ws[i])) != mw[i]:
                    res.disagree("gauss-rule value", order=n, index=i)
                    return
        add(f"gauss {n}", h)
        res.case(("gauss", n), nontrivial=n >= 5 or n < 1)
    # 3. number_of_quadrature_points
    for adj in ["coincident", "edge_adjacent", "vertex_adjacent", "vertex", "foo"]:
        for n in range(0, 34):
            st, val = _call(dg.number_of_quadrature_points, n, adj)

            def h(ans, st=st, val=val, adj=adj, n=n):
                t = ans.split()
                if st == "ok":
                    if t[0] != "ok" or int(t[1]) != val:
                        res.disagree("nqp", adj=adj, order=n, impl=val, model=ans)
                elif not (t[0] == "err" and st == "value-error"):
                    res.disagree("nqp status", adj=adj, order=n, impl=st, model=ans)
            add(f"nqp {adj} {n}", h)
            res.case(("nqp", adj, n))
    # 4. duffy rules on injected 1-D rules (exact dyadic) and on the tabulated rule
    import numpy as np
    from bempp_cl.api.integration import gauss as gmod
    orig = gmod.rule
    plans = []
    rng = ctx.rng
    for adj in ["coincident", "edge_adjacent", "vertex_adjacent"]:
        for n, reps in ((1, 2), (2, ctx.pick(2, 6)), (3, ctx.pick(1, 3)), (4, ctx.pick(0, 1))):
            for r in range(reps):
                xs = [F(rng.randrange(1, 8), 8) for _ in range(n)]
                ws = [F(rng.randrange(1, 8), 8) for _ in range(n)]
                plans.append((adj, n, xs, ws, f"dyadic{r}"))
        for n in (2, 3):
            plans.append((adj, n, None, None, "table"))
    try:
        for adj, n, xs, ws, rid in plans:
            if xs is None:
                gmod.rule = orig
                x_, w_ = orig(n)
                xs = [F(float(v)) for v in x_]
                ws = [F(float(v)) for v in w_]
                tol = F(1, 10**15)
            else:
                gmod.rule = (lambda xs=xs, ws=ws: (lambda order: (np.array([float(v) for v in xs]),
                                                                     np.array([float(v) for v in ws]))))()
                tol = 0
            st, val = _call(dg.rule, n, adj)
            gmod.rule = orig

            def h(ans, adj=adj, n=n, st=st, val=val, tol=tol, rid=rid):
                t = ans.split()
                if st != "ok" or t[0] != "ok":
                    res.disagree("duffy status", adj=adj, order=n, impl=st, model=ans[:40])
                    return
                k = int(t[1])
                pt, ps, w = val
                if pt.shape != (2, k) or ps.shape != (2, k) or w.shape != (k,):
                    res.disagree("duffy shape", adj=adj, order=n, impl=list(pt.shape), model=k)
                    return
                m = [F(x) for x in t[2:]]
                for i in range(k):
                    got = [pt[0, i], pt[1, i], ps[0, i], ps[1, i], w[i]]
                    for c in range(5):
                        if abs(F(float(got[c])) - m[5 * i + c]) > tol:
                            res.disagree("duffy value", adj=adj, order=n, rule=rid, index=i, component=c,
                                         impl=float(got[c]), model=float(m[5 * i + c]))
                            return
            add(f"duffy {adj} {n} " + " ".join(_rat(v) for v in xs + ws), h)
            res.case(("duffy", adj, n, rid), nontrivial=True,
                     sample=dict(kind="duffy", adj=adj, order=n, rule=rid, xs=[str(v) for v in xs]))
    finally:
        gmod.rule = orig
    # 5. remaps
    for _ in range(ctx.pick(6, 40)):
        x = F(rng.randrange(0, 33), 32)
        y = F(rng.randrange(0, 33 - int(x * 32)), 32)
        p = np.array([[float(x)], [float(y)]])
        for v in range(3):
            q = dg.remap_points_shared_vertex(p, v)

            def h(ans, q=q, v=v, x=x, y=y):
                t = ans.split()
                if t[0] != "ok" or F(float(q[0, 0])) != F(t[1]) or F(float(q[1, 0])) != F(t[2]):
                    res.disagree("remap vertex", v=v, p=[str(x), str(y)], impl=q[:, 0].tolist(), model=ans)
            add(f"remapv {v} {_rat(x)} {_rat(y)}", h)
            res.case(("remapv", v), nontrivial=v != 0)
        for a, b in itertools.permutations(range(3), 2):
            q = dg.remap_points_shared_edge(p, a, b)

            def h(ans, q=q, a=a, b=b, x=x, y=y):
                t = ans.split()
                if t[0] != "ok" or F(float(q[0, 0])) != F(t[1]) or F(float(q[1, 0])) != F(t[2]):
                    res.disagree("remap edge", v=[a, b], p=[str(x), str(y)], impl=q[:, 0].tolist(), model=ans)
            add(f"remape {a} {b} {_rat(x)} {_rat(y)}", h)
            res.case(("remape", a, b), nontrivial=(a, b) != (0, 1))
    answers = run_driver(reqs)
    for a, h in zip(answers, expect):
        h(a)
    res.count("driver_requests", len(reqs))
    return res


# ------------------------------------------------------------------------------------------------
# oracle: the property itself on the real code


def _tri_ref(a, b):
    return F(math.factorial(a) * math.factorial(b), math.factorial(a + b + 2))


def _phys(tri, pts):
    import numpy as np
    v0, v1, v2 = (np.array(t, float) for t in tri)
    return v0[:, None] + np.outer(v1 - v0, pts[0]) + np.outer(v2 - v0, pts[1])


def _sing_value(dg, n, adj, tri_t, tri_s, remap_t=None, remap_s=None):
    import numpy as np
    pt, ps, w = dg.rule(n, adj)
    if remap_t:
        pt = remap_t(pt)
    if remap_s:
        ps = remap_s(ps)
    X = _phys(tri_t, pt)
    Y = _phys(tri_s, ps)
    r = np.linalg.norm(X - Y, axis=0)
    return float(np.sum(w / r))


def oracle(ctx, deep=False):
    import numpy as np
    res = Result()
    tg, g, dg = _imp()
    deep = deep or ctx.thorough
    # (a) triangle rules: exact rational moments of the values the library returns
    worst = 0
    for n in range(1, 21):
        st, val = _call(tg.rule, n)
        if st != "ok":
            res.counterexample(f"tri-rule-{n}-raises", f"triangle rule of order {n} is rejected ({st})", order=n)
            continue
        pts, w = val
        P = [(F(float(pts[0, i])), F(float(pts[1, i]))) for i in range(pts.shape[1])]
        W = [F(float(x)) for x in w]
        for a in range(n + 1):
            xa = [p[0] ** a for p in P]
            for b in range(n + 1 - a):
                s = sum(wi * x * p[1] ** b for wi, x, p in zip(W, xa, P))
                err = abs(s - _tri_ref(a, b))
                worst = max(worst, err)
                res.case(("tri-moment", n, a, b), nontrivial=n >= 5)
                if err > F(1, 10**14):
                    res.counterexample(f"tri-rule-{n}-inexact", f"triangle rule of order {n} does not integrate "
                                       f"x^{a} y^{b} exactly (error {float(err):.3e})", order=n, monomial=[a, b],
                                       error=float(err))
                    break
            else:
                continue
            break
    res.stats["tri_worst_moment_error"] = float(worst)
    worst = 0
    for n in range(1, 31):
        st, val = _call(g.rule, n)
        if st != "ok":
            res.counterexample(f"gauss-rule-{n}-raises", f"Gauss rule with {n} points is rejected ({st})", order=n)
            continue
        xs = [F(float(v)) for v in val[0]]
        ws = [F(float(v)) for v in val[1]]
        if len(xs) != n:
            res.counterexample(f"gauss-rule-{n}-count", f"Gauss rule {n} has {len(xs)} points", order=n)
            continue
        for j in range(2 * n):
            err = abs(sum(w * x**j for x, w in zip(xs, ws)) - F(1, j + 1))
            worst = max(worst, err)
            res.case(("gauss-moment", n, j), nontrivial=n >= 5)
            if err > F(1, 10**14):
                res.counterexample(f"gauss-rule-{n}-inexact", f"Gauss rule with {n} points does not integrate x^{j} "
                                   f"exactly (error {float(err):.3e})", order=n, degree=j, error=float(err))
                break
    res.stats["gauss_worst_moment_error"] = float(worst)
    # (b) rejected lookups
    for mod, name, bad in ((tg, "tri", [0, -1, 21, 22, 100]), (g, "gauss", [0, -1, 31, 32, 100])):
        for n in bad:
            st, _ = _call(mod.rule, n)
            res.case((name + "-reject", n), nontrivial=True)
            if st == "ok":
                res.counterexample(f"{name}-rule-{n}-accepted", f"{name} rule lookup for order {n} is not rejected",
                                   order=n)
    # (c0) advertised point counts for EVERY supported order (cheap), and the rule lookup itself at the top order
    for adj, fac in (("coincident", 6), ("edge_adjacent", 5), ("vertex_adjacent", 2)):
        for n in range(1, 31):
            st, cnt = _call(dg.number_of_quadrature_points, n, adj)
            res.case(("duffy-count", adj, n), nontrivial=n >= 5)
            if st != "ok" or cnt != fac * n**4:
                res.counterexample(f"duffy-count-{adj}-{n}", f"number_of_quadrature_points({n}, {adj!r}) gives "
                                   f"{cnt if st == 'ok' else st}, advertised {fac * n**4}", order=n, adj=adj)
    for adj, fac in ((("vertex_adjacent", 2),) if not deep else (("vertex_adjacent", 2), ("edge_adjacent", 5), ("coincident", 6))):
        st, val = _call(dg.rule, 30, adj)
        res.case(("duffy-top-order", adj), nontrivial=True)
        if st != "ok" or len(val[2]) != fac * 30**4:
            res.counterexample(f"duffy-rule-30-{adj}", f"the {adj} rule of the highest supported order 30 is "
                               f"{'rejected (' + st + ')' if st != 'ok' else 'built with %d points' % len(val[2])}", order=30, adj=adj)
        else:
            w = val[2]
            s0 = float(np.sum(w))
            if abs(s0 - 0.25) > 1e-12:
                res.counterexample(f"duffy-inexact-{adj}-30", f"{adj} rule of order 30 integrates 1 to {s0} instead of 1/4",
                                   order=30, adj=adj)
    # (c) singular rules: count + polynomial exactness (float, tolerance 1e-12)
    nmax = 6 if deep else 4
    worst = 0.0
    for adj in ["coincident", "edge_adjacent", "vertex_adjacent"]:
        for n in range(2, nmax + 1):
            pt, ps, w = dg.rule(n, adj)
            cnt = dg.number_of_quadrature_points(n, adj)
            adv = {"coincident": 6, "edge_adjacent": 5, "vertex_adjacent": 2}[adj] * n**4
            if not (len(w) == cnt == adv == pt.shape[1] == ps.shape[1]):
                res.counterexample(f"duffy-count-{adj}-{n}", f"{adj} rule of order {n} has {len(w)} points, "
                                   f"number_of_quadrature_points says {cnt}, advertised {adv}", order=n, adj=adj)
            deg = 2 * n - 4
            bad = None
            for a in range(deg + 1):
                for b in range(deg + 1 - a):
                    for c in range(deg + 1 - a - b):
                        for d in range(deg + 1 - a - b - c):
                            s = float(np.sum(w * pt[0]**a * pt[1]**b * ps[0]**c * ps[1]**d))
                            ex = float(_tri_ref(a, b) * _tri_ref(c, d))
                            worst = max(worst, abs(s - ex))
                            res.case(("duffy-moment", adj, n, a, b, c, d), nontrivial=True)
                            if abs(s - ex) > 1e-12 and bad is None:
                                bad = (a, b, c, d, s, ex)
            if bad:
                res.counterexample(f"duffy-inexact-{adj}-{n}", f"{adj} rule of order {n} does not integrate "
                                   f"x1^{bad[0]} y1^{bad[1]} x2^{bad[2]} y2^{bad[3]} exactly ({bad[4]} vs {bad[5]})",
                                   order=n, adj=adj, monomial=list(bad[:4]))
    res.stats["duffy_worst_moment_error"] = worst
    # (d) geometric convergence for 1/|x-y| on every remap; all labellings of the same pair of
    # triangles must converge to the same value
    A, B, C, D = (0.0, 0.0, 0.0), (1.0, 0.0, 0.0), (0.2, 0.9, 0.1), (0.6, -0.7, 0.5)
    E, G = (-0.8, 0.3, -0.2), (-0.3, -0.9, 0.4)
    nref = 10 if deep else 8
    ladder = list(range(2, 8 if deep else 6))
    cases = []
    cases.append(("coincident", None, (A, B, C), (A, B, C), None, None))
    for a, b in itertools.permutations(range(3), 2):
        tri = [None] * 3
        tri[a], tri[b], tri[3 - a - b] = A, B, C
        cases.append(("edge_adjacent", (a, b), tuple(tri), (A, B, D),
                      (lambda p, a=a, b=b: dg.remap_points_shared_edge(p, a, b)),
                      (lambda p: dg.remap_points_shared_edge(p, 0, 1))))
    for v in range(3):
        tri = [None] * 3
        tri[v], tri[(v + 1) % 3], tri[(v + 2) % 3] = A, B, C
        cases.append(("vertex_adjacent", v, tuple(tri), (A, E, G),
                      (lambda p, v=v: dg.remap_points_shared_vertex(p, v)),
                      (lambda p: dg.remap_points_shared_vertex(p, 0))))
    refs = {}
    for adj, lab, tt, ts, rt, rs in cases:
        ref = _sing_value(dg, nref, adj, tt, ts, rt, rs)
        refs.setdefault(adj, []).append((lab, ref))
        errs = [abs(_sing_value(dg, n, adj, tt, ts, rt, rs) - ref) / abs(ref) for n in ladder]
        res.case(("converge", adj, str(lab)), nontrivial=True,
                 sample=dict(kind="convergence", adj=adj, remap=lab, rel_errors=[float(f"{e:.2e}") for e in errs]))
        # geometric: final rung below 2e-4 * 0.3^(len-4) and the error falls by at least a factor 2 per rung
        # while it is above 1e-10
        ok = errs[-1] < 5e-4 and all(e2 < 0.6 * e1 or e2 < 1e-10 for e1, e2 in zip(errs, errs[1:]))
        if not ok:
            res.counterexample(f"duffy-convergence-{adj}-{lab}", f"{adj} rule (remap {lab}) does not converge "
                               f"geometrically for 1/|x-y|: relative errors {errs}", adj=adj, remap=str(lab), errors=errs)
    for adj, lst in refs.items():
        vals = [r for _, r in lst]
        if max(vals) - min(vals) > 1e-6 * abs(vals[0]):
            res.counterexample(f"duffy-remap-inconsistent-{adj}", f"{adj}: different remaps of the same triangle pair "
                               f"converge to different values {lst}", adj=adj)
    res.stats["singular_reference_values"] = {k: v[0][1] for k, v in refs.items()}
    return res


def search(ctx, broken):
    return oracle(ctx, deep=True)

LEVEL_TEXT = ("Lean 4 theorems, re-checked by the kernel on every run against tables regenerated from the source text: every "
              "triangle rule (orders 1-20, all monomials) and every Gauss rule (1-30 points, degree <= 2n-1) is exact to 1e-14 in "
              "exact rational arithmetic on the binary64 table values; lookups are rejected exactly outside 1..20 / 1..30; for "
              "EVERY order n and every 1-D rule the singular rules have 6n^4/5n^4/2n^4 points, the vertex-adjacent rule is exact "
              "for all monomials of degree <= 2n-4 (given exact 1-D moments), the coincident rule is swap-invariant and every "
              "remap permutes barycentric coordinates; the edge-adjacent and coincident rules are exact for all monomials of total "
              "degree <= min(2n-4, 6) for EVERY n (reflection proof), and on the tabulated rule for n<=3 by kernel computation.  The hand model of rule()/duffy/remaps is compared exactly with the implementation through the driver.")
LEVEL_NOTE = ("partial: edge-adjacent/coincident exactness for degrees 7..2n-4 (n>=6) and geometric convergence for 1/|x-y| are not theorems (oracle "
              "only).  Trusted: Lean kernel, ast table extractor, hand model Model/Quad.lean tied by differential comparison, "
              "IEEE rounding not modelled.")
TECHNIQUE = "Lean 4 proof (decide +kernel on regenerated tables, ring/field_simp structure theorems) + differential correspondence"
