"""C16 — assembly results are independent of thread count and scheduling.

Tie C (correspondence): the real `space.color_map`, `get_elements_by_color()`, `global2local` and the `test_elements`
that reach the regular assembly function per kernel call are compared exactly with the Lean model
(`Model/Color.lean`, through the native driver) on real `local2global` / `local_multipliers` / `support` data.
Oracle: (i) brute-force search on the real colourings for two equally coloured support elements sharing a global
dof + the premise `artificial_dof_owned`; (ii) bitwise determinism of real assemblies under different
NUMBA_NUM_THREADS in subprocesses.
"""
import hashlib
import itertools
import json
import os
import subprocess
import sys
import time

from vlib.common import Result, run_driver, build_driver, ROOT, REPO

PID = "C16"
LEAN_MODULES = ["BemppVerif.Props.C16"]
N = "BemppVerif.C16."
THEOREMS = [N + t for t in [
    "greedy_never_raises", "greedy_colors_support", "greedy_proper_nz", "greedy_proper",
    "colors_partition_support", "rows_disjoint_in_launch", "interleaving_independent",
    "launch_schedule_independent", "singular_slots_injective", "sparse_slots_injective",
    "potential_columns_disjoint", "indexed_tasks_independent", "trace_determines_reads_writes", "ownedCheck_sound",
]]
PARTIAL = {}
TRUSTED = [
    "hand models lean/BemppVerif/Model/Color.lean (greedy colouring, elements-by-colour, launch loop) and "
    "Model/Sched.lean (atomic load/store interleavings, scatter loop of the regular kernels, slot formulas), tied to "
    "the source by exact differential comparison of color_map / get_elements_by_color / global2local / recorded "
    "test_elements per kernel call, and of the load/store sequence on `result` recorded while the undecorated source "
    "(.py_func) of the regular / singular / sparse assembly functions runs on a small grid",
    "numba compiles the undecorated source faithfully and executes a prange iteration as that iteration's loads/stores "
    "(in any interleaving with the other iterations)",
    "the premise artificial_dof_owned of greedy_proper is a C09 obligation; here it is checked on every generated space",
    "memory model: loads and stores of one array cell are atomic and sequentially consistent per cell (no torn "
    "8/16-byte writes); numba/LLVM keep the per-iteration arrays (local_result, tmp, ...) private to a prange iteration",
    "not modelled: compile-time reassociation under fastmath, BLAS/@ inside grid_data.local2global, the OpenMP/TBB/"
    "workqueue runtime — covered only by the bitwise thread-matrix oracle",
]
ASSUMPTIONS = ["grids with < 2^32 dofs (uint32 local2global is modelled by Nat)"]
RULE = ("one case = one real function space (grid x kind x segments/support_elements x include_boundary_dofs x "
        "truncate_at_segment_edge, plus barycentric_representation() and localised_space of it); non-trivial when the "
        "space has at least one zero-multiplier local dof on its support or at least 3 colours; distinct by "
        "(grid, kind, options).  Kernel-trace cases (one per kernel call of the traced assemblies) and recorded-launch "
        "cases are counted as well.  Oracle thread-matrix cases are counted separately (non-trivial: >= 2 thread counts "
        "compared on an operator whose test space has >= 3 colours)")
LEVEL_TEXT = ("Lean 4 theorems (core Lean, no Mathlib), for unbounded sizes: the greedy colouring of "
              "_compute_color_map never raises, colours exactly the support elements and — under artificial_dof_owned — "
              "gives different colours to any two support elements whose local2global rows intersect; the launch loop "
              "partitions the support; test elements of one launch write disjoint cells; for tasks with pairwise "
              "disjoint write sets that read only their own cells the memory after ANY complete interleaving of atomic "
              "loads/stores equals the sequential result as a value of an arbitrary type with an arbitrary add (hence "
              "bitwise); the slot maps of the singular/sparse prange loops are injective and potential columns are "
              "disjoint.  The colouring model is compared exactly with the implementation on every run.")
LEVEL_NOTE = ("full for the logic, partial for the runtime: fastmath reassociation, BLAS, the threading runtime and the "
              "hardware memory model are not modelled (thread-matrix oracle only).  Trusted: Lean kernel, hand models "
              "Model/Color.lean + Model/Sched.lean tied by differential comparison, premise artificial_dof_owned (C09) "
              "checked per generated space.")
TECHNIQUE = ("Lean 4 proof (loop invariant for the greedy colouring, projection invariant for interleavings) + "
             "differential correspondence + bitwise thread-matrix oracle")


def generate(ctx):
    return {}


# ------------------------------------------------------------------------------------------------
# input generation: grids and spaces

KINDS = [("DP", 0), ("DP", 1), ("P", 1), ("RWG", 0), ("SNC", 0), ("BC", 0), ("RBC", 0), ("DUAL", 0), ("DUAL", 1)]
FLAGGED = {"P", "RWG", "SNC", "BC", "RBC", "DUAL"}


def _grids(ctx, rng, deep=False):
    """[(name, V, E, D or None)]"""
    import numpy as np
    from vlib import meshgen as mg
    big = ctx.thorough or deep
    out = []

    def add(name, V, E, D=None, relabel=False):
        if relabel:
            if D is None:
                V, E = mg.relabel(V, E, rng)
            else:
                V, E, D = mg.relabel(V, E, rng, D)
        out.append((name, np.asarray(V, float), np.asarray(E, np.uint32), None if D is None else np.asarray(D, np.uint32)))

    V, E = mg.tetrahedron()
    add("tetrahedron", V, E)
    V, E = mg.octahedron()
    add("octahedron-dom", V, E, mg.random_domains(8, rng, labels=(0, 3)), relabel=True)
    V, E = mg.cube(1)
    add("cube1-dom", V, E, mg.random_domains(12, rng, labels=(1, 2, 5)))
    V, E = mg.cube(2, flip_diag=bool(rng.randrange(2)))
    add("cube2-dom-relabel", V, E, mg.random_domains(48, rng), relabel=True)
    V, E = mg.icosahedron()
    add("icosahedron-dom", V, E, mg.random_domains(20, rng, labels=(0, 7)), relabel=True)
    V, E = mg.lshape()
    add("lshape-dom", V, E, mg.random_domains(E.shape[1], rng, labels=(0, 1, 4)))
    V, E = mg.screen(2, 2, wobble=0.1, rng=rng)
    add("screen2x2", V, E)
    V, E = mg.screen(3, 2, wobble=0.05, rng=rng)
    add("screen3x2-dom-relabel", V, E, mg.random_domains(12, rng, labels=(0, 2)), relabel=True)
    V1, E1 = mg.tetrahedron()
    V2, E2 = mg.octahedron()
    V, E = mg.union([(V1, E1), (V2 + 5.0, E2)])
    add("union-tet-oct-dom", V, E, np.array([0] * 4 + [1] * 4 + [2] * 4, dtype=np.uint32))
    # cube with a missing face (open, multi-domain)
    V, E = mg.cube(2)
    keep = [j for j in range(E.shape[1]) if not all(abs(V[2, int(E[i, j])]) < 1e-12 for i in range(3))]
    add("cube2-open-dom", V, E[:, keep], mg.random_domains(len(keep), rng, labels=(0, 1)))
    for r in range(3 if not big else 12):
        V, E = mg.random_soup(rng)
        add(f"soup{r}", V, E, mg.random_domains(E.shape[1], rng, labels=(0, 1)))
    if big:
        V, E = mg.torus_voxel()
        add("torus-dom", V, E, mg.random_domains(E.shape[1], rng, labels=(0, 1, 2)), relabel=True)
        V, E = mg.cube(3)
        add("cube3-dom-relabel", V, E, mg.random_domains(E.shape[1], rng), relabel=True)
        V, E = mg.screen(5, 4, wobble=0.05, rng=rng)
        add("screen5x4-dom", V, E, mg.random_domains(E.shape[1], rng, labels=(0, 1, 2)))
    return out


def _option_sets(ctx, rng, D, ne, kind, deep=False):
    """option dictionaries for one grid and kind"""
    import numpy as np
    big = ctx.thorough or deep
    opts = [dict()]
    labels = sorted(set(D.tolist())) if D is not None else []
    flagsets = [dict()]
    if kind in FLAGGED:
        flagsets = [dict(include_boundary_dofs=a, truncate_at_segment_edge=b) for a in (False, True) for b in (True, False)]
        if not big:
            # all four combinations for P / RWG, two random ones for the others
            if kind not in ("P", "RWG"):
                flagsets = rng.sample(flagsets, 2)
    sels = []
    if len(labels) >= 2:
        k = rng.randrange(1, len(labels))
        sels.append(dict(segments=sorted(rng.sample(labels, k))))
        if big and len(labels) >= 3:
            sels.append(dict(segments=[rng.choice(labels)]))
    nsub = rng.randrange(1, ne) if ne > 1 else 1
    sels.append(dict(support_elements=np.array(sorted(rng.sample(range(ne), nsub)), dtype=np.uint32)))
    if big and ne > 3:
        sels.append(dict(support_elements=np.array(sorted(rng.sample(range(ne), max(1, ne // 3))), dtype=np.uint32)))
    for s in sels:
        for f in flagsets:
            o = dict(s)
            o.update(f)
            opts.append(o)
    if kind in FLAGGED:
        # flags also on the whole grid (matters for open grids)
        for f in flagsets[1:]:
            opts.append(dict(f))
    return opts


def _okey(o):
    parts = []
    for k in sorted(o):
        v = o[k]
        if hasattr(v, "tolist"):
            v = v.tolist()
        parts.append(f"{k}={v}")
    return ";".join(parts) or "whole"


_CACHE = {}


def _spaces(ctx, deep=False):
    """Construct the real spaces once per run: list of dict(key, space, kind, grid)."""
    ck = (ctx.seed, ctx.tier, deep)
    if ck in _CACHE:
        return _CACHE[ck]
    import random
    import numpy as np
    import bempp_cl.api as api
    rng = random.Random(ctx.seed * 7919 + (13 if deep else 0) + 1)
    out, errors = [], {}
    for name, V, E, D in _grids(ctx, rng, deep):
        try:
            grid = api.Grid(V, E, D)
        except Exception as e:  # noqa
            errors[f"grid:{name}"] = type(e).__name__
            continue
        soup = name.startswith("soup")
        for kind, deg in KINDS:
            if soup and kind in ("BC", "RBC"):
                continue  # the BC fan traversal does not terminate / raises on non-manifold soups (outside C16)
            for o in _option_sets(ctx, rng, D, E.shape[1], kind, deep):
                key = f"{name}|{kind}{deg}|{_okey(o)}"
                try:
                    sp = api.function_space(grid, kind, deg, scatter=False, **o)
                except Exception as e:  # noqa  (rejected option combination: not a space)
                    errors[type(e).__name__] = errors.get(type(e).__name__, 0) + 1
                    continue
                out.append(dict(key=key, space=sp, kind=f"{kind}{deg}", grid=name, opts=_okey(o)))
                # derived spaces
                try:
                    b = sp.barycentric_representation()
                except Exception as e:  # noqa
                    b = None
                    errors["bary:" + type(e).__name__] = errors.get("bary:" + type(e).__name__, 0) + 1
                if b is not None and b is not sp:
                    out.append(dict(key=key + "|bary", space=b, kind=f"{kind}{deg}-bary", grid=name, opts=_okey(o)))
                loc = sp.localised_space
                if loc is not sp:
                    out.append(dict(key=key + "|localised", space=loc, kind=f"{kind}{deg}-loc", grid=name, opts=_okey(o)))
    # exhaustive sub-complexes of a small closed mesh as support_elements (P1 / RWG, all flag combinations)
    from vlib import meshgen as mg
    V, E = mg.tetrahedron() if not (ctx.thorough or deep) else mg.octahedron()
    grid = api.Grid(V, E)
    for sub in mg.subcomplexes(E):
        for kind, deg in (("P", 1), ("RWG", 0)):
            for a in (False, True):
                for b in (True, False):
                    o = dict(support_elements=np.array(sub, dtype=np.uint32), include_boundary_dofs=a,
                             truncate_at_segment_edge=b)
                    try:
                        sp = api.function_space(grid, kind, deg, scatter=False, **o)
                    except Exception as e:  # noqa
                        errors[type(e).__name__] = errors.get(type(e).__name__, 0) + 1
                        continue
                    out.append(dict(key=f"sub{len(E[0])}|{kind}{deg}|{_okey(o)}", space=sp, kind=f"{kind}{deg}",
                                    grid="subcomplex", opts=_okey(o)))
    _CACHE[ck] = (out, errors)
    return out, errors


def _space_arrays(sp):
    import numpy as np
    l2g = np.asarray(sp.local2global)
    mult = np.asarray(sp.local_multipliers)
    sup = np.asarray(sp.support)
    return l2g, mult, sup


def _request(cmd, l2g, mult, sup):
    import numpy as np
    n, ns = l2g.shape
    m = mult.astype(float)
    mi = np.where(m == np.round(m), np.round(m), np.sign(m)).astype(np.int64)  # only `!= 0` is evaluated
    return f"{cmd} {n} {ns} " + " ".join(map(str, sup.astype(int).tolist())) + " " + \
        " ".join(map(str, l2g.astype(np.int64).ravel().tolist())) + " " + " ".join(map(str, mi.ravel().tolist()))


def _parse_color(ans):
    t = ans.split()
    if t[0] != "ok":
        return None
    i = 1
    assert t[i] == "cm"
    i += 1
    j = t.index("sorted")
    cm = [int(x) for x in t[i:j]]
    k = int(t[j + 1])
    srt = [int(x) for x in t[j + 2:j + 2 + k]]
    i = j + 2 + k
    assert t[i] == "ptr"
    m = int(t[i + 1])
    ptr = [int(x) for x in t[i + 2:i + 2 + m]]
    i = i + 2 + m
    assert t[i] == "launches"
    L = int(t[i + 1])
    i += 2
    launches = []
    for _ in range(L):
        ln = int(t[i])
        launches.append([int(x) for x in t[i + 1:i + 1 + ln]])
        i += 1 + ln
    assert t[i] == "owned"
    return dict(cm=cm, sorted=srt, ptr=ptr, launches=launches, owned=int(t[i + 1]))


def _owned_python(l2g, mult, sup):
    """artificial_dof_owned on the real arrays: every entry of a support row occurs in it with non-zero multiplier"""
    for e in range(l2g.shape[0]):
        if not sup[e]:
            continue
        nzd = {int(d) for d, m in zip(l2g[e], mult[e]) if m != 0}
        for d in l2g[e]:
            if int(d) not in nzd:
                return False, e
    return True, None


def _zero_mult_count(mult, sup):
    import numpy as np
    return int(np.count_nonzero(np.asarray(mult)[np.asarray(sup, bool)] == 0))


MAX_G2L_ELEMS = 320


def correspondence(ctx):
    import numpy as np
    res = Result()
    build_driver()
    _matrix(ctx)  # start the thread-matrix workers now; the oracle collects them
    spaces, errors = _spaces(ctx)
    res.stats["construct_errors"] = errors
    reqs, handlers = [], []
    model_launches = {}
    kinds_seen = {}
    for item in spaces:
        sp, key = item["space"], item["key"]
        l2g, mult, sup = _space_arrays(sp)
        if l2g.size and int(l2g.max()) > 16 * l2g.size + 16:
            res.notes.append(f"{key}: local2global contains a wrapped index {int(l2g.max())}; skipped")
            continue
        try:
            cm = np.asarray(sp.color_map).astype(int).tolist()
            srt, ptr = sp.get_elements_by_color()
            srt, ptr = np.asarray(srt).astype(int).tolist(), np.asarray(ptr).astype(int).tolist()
            status = "ok"
        except StopIteration:
            status, cm, srt, ptr = "stop-iteration", None, None, None
        ncol = (len(ptr) - 1) if ptr else 0
        nz0 = _zero_mult_count(mult, sup)
        kinds_seen[item["kind"]] = kinds_seen.get(item["kind"], 0) + 1
        res.case(key, nontrivial=(nz0 > 0 or ncol >= 3),
                 sample=dict(space=key, elements=int(l2g.shape[0]), support=int(np.count_nonzero(sup)), colours=ncol,
                             zero_multiplier_entries=nz0) if (nz0 > 0 and ncol >= 3 and len(res.samples) < 3) else None)
        owned_py, _ = _owned_python(l2g, mult, sup)

        def h(ans, key=key, cm=cm, srt=srt, ptr=ptr, status=status, owned_py=owned_py):
            if status != "ok":
                if ans.strip() != "err stop-iteration":
                    res.disagree("colouring status", space=key, impl=status, model=ans[:60])
                return
            m = _parse_color(ans)
            if m is None:
                res.disagree("colouring status", space=key, impl="ok", model=ans[:60])
                return
            model_launches[key] = m
            if m["cm"] != cm:
                bad = [i for i, (a, b) in enumerate(zip(m["cm"], cm)) if a != b][:5]
                res.disagree("color_map", space=key, first_diff=bad, impl=[cm[i] for i in bad],
                             model=[m["cm"][i] for i in bad])
            if m["sorted"] != srt:
                res.disagree("get_elements_by_color sorted_indices", space=key, impl=srt[:12], model=m["sorted"][:12])
            if m["ptr"] != ptr:
                res.disagree("get_elements_by_color indexptr", space=key, impl=ptr, model=m["ptr"])
            impl_launch = [srt[ptr[c]:ptr[c + 1]] for c in range(len(ptr) - 1)]
            if m["launches"] != impl_launch:
                res.disagree("launch partition (slices of sorted_indices)", space=key)
            if bool(m["owned"]) != owned_py:
                res.disagree("artificial_dof_owned check", space=key, impl=owned_py, model=m["owned"])
        reqs.append(_request("color", l2g, mult, sup))
        handlers.append(h)
        # global2local = invert_local2global (neighbour discovery data)
        if l2g.shape[0] <= MAX_G2L_ELEMS:
            g2l = [[(int(a), int(b)) for a, b in lst] for lst in sp.global2local]

            def hg(ans, key=key, g2l=g2l):
                t = ans.split()
                if t[0] != "ok":
                    res.disagree("global2local status", space=key, model=ans[:60])
                    return
                gdc = int(t[1])
                i = 2
                mod = []
                for _ in range(gdc):
                    ln = int(t[i])
                    mod.append([(int(t[i + 1 + 2 * k]), int(t[i + 2 + 2 * k])) for k in range(ln)])
                    i += 1 + 2 * ln
                if mod != g2l:
                    res.disagree("global2local", space=key, impl_len=len(g2l), model_len=len(mod))
            reqs.append(_request("g2l", l2g, mult, sup))
            handlers.append(hg)
    t0 = time.time()
    answers = run_driver(reqs)
    res.stats["driver_seconds"] = round(time.time() - t0, 2)
    for a, h in zip(answers, handlers):
        h(a)
    res.count("driver_requests", len(reqs))
    res.stats["spaces_by_kind"] = kinds_seen
    # recorded launches of real dense assemblies
    res.merge(_recorded_launches(ctx, spaces, model_launches))
    t0 = time.time()
    res.merge(_kernel_traces(ctx))
    res.stats["kernel_trace_seconds"] = round(time.time() - t0, 1)
    _FOUND["tie"] += len(res.disagreements)
    return res


# ------------------------------------------------------------------------------------------------
# recording stub around the regular assembly function


_RECORDED = {}


def _record(ctx, spaces, deep=False):
    """Run real dense assemblies with the regular / singular assembly functions (module globals of
    bempp_cl.core.numba_kernels, looked up by select_numba_kernels at call time) replaced by recording stubs.
    Returns [dict(op, test, trial, calls=[(function name, test_elements, trial_elements)], error)]."""
    ck = (ctx.seed, ctx.tier, deep)
    if ck in _RECORDED:
        return _RECORDED[ck]
    import random
    import numpy as np
    import bempp_cl.api as api
    from bempp_cl.core import numba_kernels as nk
    by_kind = {}
    for it in spaces:
        sp = it["space"]
        if sp.requires_dof_transformation or it["grid"] == "subcomplex":
            continue
        if it["grid"].startswith("soup") or sp.number_of_support_elements == 0:
            continue
        by_kind.setdefault((it["grid"], it["kind"]), []).append(it)
    plans = []  # (operator name, test item, trial item)
    grids = sorted({g for g, _ in by_kind})
    rng = random.Random(ctx.seed * 104729 + 5)
    budget = 40 if (ctx.thorough or deep) else 12
    for g in grids:
        p1 = by_kind.get((g, "P1"), [])
        dp1 = by_kind.get((g, "DP1"), [])
        dp0 = by_kind.get((g, "DP0"), [])
        rwg = by_kind.get((g, "RWG0"), [])
        snc = by_kind.get((g, "SNC0"), [])
        if p1:
            # prefer test spaces with zero multipliers / many colours
            p1s = sorted(p1, key=lambda it: -_zero_mult_count(it["space"].local_multipliers, it["space"].support))
            plans.append(("laplace_slp", p1s[0], rng.choice(dp0 + dp1 + p1)))
            plans.append(("laplace_hyp", rng.choice(p1), rng.choice(p1)))
        if rwg and snc:
            ts = sorted(snc, key=lambda it: -_zero_mult_count(it["space"].local_multipliers, it["space"].support))
            plans.append(("maxwell_efield", ts[0], rng.choice(rwg)))
    rng.shuffle(plans)
    plans = plans[:budget]
    names = ["default_scalar_regular_kernel", "laplace_hypersingular_regular", "maxwell_efield_regular_assembler",
             "default_scalar_singular_kernel", "laplace_hypersingular_singular", "maxwell_efield_singular"]
    saved = {n: getattr(nk, n) for n in names}
    calls = []

    def make_regular(name):
        def stub(test_grid_data, trial_grid_data, nshape_test, nshape_trial, test_elements, trial_elements, *rest):
            calls.append((name, np.asarray(test_elements).astype(int).tolist(),
                          np.asarray(trial_elements).astype(int).tolist()))
        return stub

    def singular_stub(*a):
        return None
    out = []
    try:
        for n in names[:3]:
            setattr(nk, n, make_regular(n))
        for n in names[3:]:
            setattr(nk, n, singular_stub)
        for op, test, trial in plans:
            calls.clear()
            ts, ds = test["space"], trial["space"]
            err = None
            try:
                if op == "laplace_slp":
                    A = api.operators.boundary.laplace.single_layer(ds, ts, ts, assembler="dense")
                elif op == "laplace_hyp":
                    A = api.operators.boundary.laplace.hypersingular(ds, ts, ts, assembler="dense")
                else:
                    A = api.operators.boundary.maxwell.electric_field(ds, ds, ts, 1.3, assembler="dense")
                A.weak_form()
            except Exception as e:  # noqa
                err = f"{type(e).__name__} {str(e)[:80]}"
            out.append(dict(op=op, test=test, trial=trial, calls=list(calls), error=err))
    finally:
        for n, f in saved.items():
            setattr(nk, n, f)
    _RECORDED[ck] = out
    return out


def _recorded_launches(ctx, spaces, model_launches):
    """compare the recorded `test_elements` of the successive kernel calls with the model's launch partition of the
    dual_to_range space and `trial_elements` with the model's sorted indices of the domain space"""
    res = Result()
    for rec in _record(ctx, spaces):
        op, test, trial, calls = rec["op"], rec["test"], rec["trial"], rec["calls"]
        if rec["error"]:
            res.notes.append(f"recording {op} {test['key']} x {trial['key']}: {rec['error']}")
            continue
        if test["key"] not in model_launches or trial["key"] not in model_launches:
            continue
        ts = test["space"]
        m_test = model_launches[test["key"]]
        m_trial = model_launches[trial["key"]]
        got = [c[1] for c in calls]
        ncol = len(m_test["launches"])
        res.case(("recorded", op, test["key"], trial["key"]),
                 nontrivial=ncol >= 3 or _zero_mult_count(ts.local_multipliers, ts.support) > 0,
                 sample=dict(recorded=op, test=test["key"], trial=trial["key"], kernel_calls=len(calls),
                             launch_sizes=[len(x) for x in got]) if (ncol >= 3 and len(res.samples) < 2) else None)
        if got != m_test["launches"]:
            res.disagree("recorded test_elements per kernel call", operator=op, test=test["key"],
                         impl=[x[:8] for x in got[:4]], model=[x[:8] for x in m_test["launches"][:4]])
        if any(c[2] != m_trial["sorted"] for c in calls):
            res.disagree("recorded trial_elements", operator=op, trial=trial["key"])
        res.count("recorded_assemblies")
        res.count("recorded_kernel_calls", len(calls))
    return res


def _recorded_oracle(ctx, spaces, deep=False):
    """the property on the real launch loop: within each recorded kernel call no two test elements share a row of
    the result (any local2global entry), and the calls together visit every support element exactly once"""
    import numpy as np
    res = Result()
    for rec in _record(ctx, spaces, deep):
        if rec["error"]:
            continue
        op, test, calls = rec["op"], rec["test"], rec["calls"]
        sp = test["space"]
        l2g = np.asarray(sp.local2global)
        res.case(("recorded-oracle", op, test["key"]), nontrivial=len(calls) >= 3)
        visited = sorted(e for c in calls for e in c[1])
        if visited != np.flatnonzero(sp.support).tolist():
            res.counterexample(f"launch-loop-not-partition-{op}", f"the kernel calls of the dense {op} assembly with "
                               f"dual_to_range {test['key']} do not visit every support element exactly once",
                               operator=op, space=test["key"], launches=[c[1] for c in calls][:8])
        for k, c in enumerate(calls):
            owner = {}
            for e in c[1]:
                for d in l2g[e]:
                    o = owner.setdefault(int(d), e)
                    if o != e:
                        res.counterexample(
                            f"launch-shares-row-{op}",
                            f"kernel call {k} of the dense {op} assembly with dual_to_range {test['key']} receives the "
                            f"test elements {o} and {e}, which both write row {int(d)} of the result "
                            f"(rows {l2g[o].tolist()} / {l2g[e].tolist()})", operator=op, space=test["key"], call=k,
                            elements=[o, e], dof=int(d), test_elements=c[1][:32])
                        break
                else:
                    continue
                break
    return res


class _Rec:
    """stands in for the `result` array while the UNDECORATED source of an assembly function runs: logs every
    element load (`r`) and store (`w`) in program order"""

    def __init__(self, shape, dtype):
        import numpy as np
        self.a = np.zeros(shape, dtype)
        self.dtype = self.a.dtype
        self.shape = self.a.shape
        self.log = []

    def __getitem__(self, idx):
        idx = idx if isinstance(idx, tuple) else (idx,)
        self.log.append((0,) + tuple(int(i) for i in idx))
        return self.a[idx]

    def __setitem__(self, idx, v):
        idx = idx if isinstance(idx, tuple) else (idx,)
        self.log.append((1,) + tuple(int(i) for i in idx))
        self.a[idx] = v


def _kernel_traces(ctx):
    """Tie for the scatter loops: run the undecorated Python source (`.py_func`) of the regular, singular and sparse
    assembly functions on a small grid with `result` replaced by a recorder and compare the recorded load/store
    sequence with the model (`denseTask` per test element in launch order; slot order of the singular/sparse loops)."""
    import copy
    import numpy as np
    import bempp_cl.api as api
    from bempp_cl.core import numba_kernels as nk
    from vlib import meshgen as mg
    res = Result()
    V, E = mg.octahedron()
    grid = api.Grid(V, E, np.array([0, 0, 1, 1, 0, 1, 0, 1], dtype=np.uint32))
    sub = np.array([0, 1, 2, 3, 4, 6], dtype=np.uint32)
    p1z = api.function_space(grid, "P", 1, scatter=False, support_elements=sub)  # zero multipliers
    p1 = api.function_space(grid, "P", 1, scatter=False)
    dp1 = api.function_space(grid, "DP", 1, scatter=False, segments=[1])
    rwg = api.function_space(grid, "RWG", 0, scatter=False)
    sncz = api.function_space(grid, "SNC", 0, scatter=False, support_elements=sub)
    for sp in (p1z, p1, dp1, rwg, sncz):
        # the undecorated kernels index arrays without bounds checks: only run them on sane element lists
        srt = np.asarray(sp.get_elements_by_color()[0]).astype(np.int64).tolist()
        if sorted(srt) != np.flatnonzero(sp.support).tolist():
            res.disagree("get_elements_by_color is not a permutation of the support elements; kernel traces skipped",
                         space=sp.identifier, impl=srt[:12])
            return res
    par = copy.deepcopy(api.GLOBAL_PARAMETERS)
    par.quadrature.regular = 1
    par.quadrature.singular = 1
    plans = [("default_scalar", lambda: api.operators.boundary.laplace.single_layer(dp1, p1z, p1z, assembler="dense",
                                                                                    parameters=par), p1z, dp1),
             ("laplace_hypersingular", lambda: api.operators.boundary.laplace.hypersingular(
                 p1, p1z, p1z, assembler="dense", parameters=par), p1z, p1),
             ("maxwell_electric_field", lambda: api.operators.boundary.maxwell.electric_field(
                 rwg, rwg, sncz, 1.3, assembler="dense", parameters=par), sncz, rwg)]
    if ctx.thorough:
        plans += [("helmholtz_hypersingular", lambda: api.operators.boundary.helmholtz.hypersingular(
                      p1, p1z, p1z, 1.3, assembler="dense", parameters=par), p1z, p1),
                  ("modified_helmholtz_hypersingular", lambda: api.operators.boundary.modified_helmholtz.hypersingular(
                      p1, p1z, p1z, 1.3, assembler="dense", parameters=par), p1z, p1),
                  ("maxwell_magnetic_field", lambda: api.operators.boundary.maxwell.magnetic_field(
                      rwg, rwg, sncz, 1.3, assembler="dense", parameters=par), sncz, rwg)]
    regular = ["default_scalar_regular_kernel", "laplace_hypersingular_regular", "helmholtz_hypersingular_regular",
               "modified_helmholtz_hypersingular_regular", "maxwell_efield_regular_assembler",
               "maxwell_mfield_regular_assembler"]
    singular = ["default_scalar_singular_kernel", "laplace_hypersingular_singular", "helmholtz_hypersingular_singular",
                "modified_helmholtz_hypersingular_singular", "maxwell_efield_singular", "maxwell_mfield_singular"]
    saved = {n: getattr(nk, n) for n in regular + singular + ["default_sparse_kernel"]}
    logs = []

    def make(name, mode):
        orig = saved[name]

        def stub(*args):
            args = list(args)
            rec = _Rec(args[-1].shape, args[-1].dtype)
            args[-1] = rec
            if mode == "sparse":
                args[14] = args[14].py_func
            orig.py_func(*args)
            if mode == "regular":
                logs.append((mode, name, dict(test=np.asarray(args[4]).astype(int).tolist(),
                                              trial=np.asarray(args[5]).astype(int).tolist()), rec.log))
            elif mode == "singular":
                logs.append((mode, name, dict(n=len(args[4]), nt=int(args[12]), ns=int(args[13])), rec.log))
            else:
                logs.append((mode, name, dict(n=len(args[3]), nt=int(args[1]), ns=int(args[2])), rec.log))
        return stub
    reqs, handlers = [], []
    try:
        for n in regular:
            setattr(nk, n, make(n, "regular"))
        for n in singular:
            setattr(nk, n, make(n, "singular"))
        nk.default_sparse_kernel = make("default_sparse_kernel", "sparse")
        runs = []
        for label, build, ts, ds in plans:
            logs.clear()
            try:
                build().weak_form()
            except Exception as e:  # noqa
                res.disagree("kernel trace could not run", operator=label, error=f"{type(e).__name__}: {str(e)[:200]}")
                continue
            runs.append((label, ts, ds, list(logs)))
        logs.clear()
        try:
            api.operators.boundary.sparse.identity(p1, p1, p1z, parameters=par).weak_form()
            runs.append(("l2_identity", p1z, p1, list(logs)))
        except Exception as e:  # noqa
            res.disagree("kernel trace could not run", operator="l2_identity", error=f"{type(e).__name__}: {str(e)[:200]}")
    finally:
        for n, f in saved.items():
            setattr(nk, n, f)
    for label, ts, ds, lg in runs:
        l2t, l2s = np.asarray(ts.local2global), np.asarray(ds.local2global)
        for mode, name, info, log in lg:
            if mode == "regular":
                # one request per test element; the kernel call's log must be their concatenation in launch order
                parts = []
                for te in info["test"]:
                    reqs.append(f"densetask {l2t.shape[1]} {l2s.shape[1]} {len(info['trial'])} "
                                + " ".join(map(str, l2t[te].tolist())) + " "
                                + " ".join(str(int(x)) for tr in info["trial"] for x in l2s[tr]))
                    parts.append(len(reqs) - 1)

                def h(answers, parts=parts, log=log, name=name, info=info, label=label):
                    model = []
                    for k in parts:
                        t = answers[k].split()
                        if t[0] != "ok":
                            res.disagree("densetask status", function=name, model=answers[k][:60])
                            return
                        v = [int(x) for x in t[2:]]
                        model += [tuple(v[3 * i:3 * i + 3]) for i in range(len(v) // 3)]
                    if model != log:
                        k = next((i for i, (a, b) in enumerate(zip(model, log)) if a != b), min(len(model), len(log)))
                        res.disagree("load/store sequence of the regular scatter loop", function=name, operator=label,
                                     test_elements=info["test"], first_diff=k, impl=log[k:k + 3], model=model[k:k + 3],
                                     impl_len=len(log), model_len=len(model))
                handlers.append(h)
                res.case(("trace", label, name, tuple(info["test"])), nontrivial=True,
                         sample=dict(trace=name, test_elements=info["test"], accesses=len(log)) if len(res.samples) < 1 else None)
            else:
                reqs.append(f"slots {'singular' if mode == 'singular' else 'sparse'} {info['n']} {info['nt']} {info['ns']}")
                kreq = len(reqs) - 1

                def h(answers, kreq=kreq, log=log, name=name, info=info, label=label):
                    t = answers[kreq].split()
                    model = [int(x) for x in t[1:]]
                    cells = [c[1] for c in log]
                    dedup = [c for i, c in enumerate(cells) if i == 0 or cells[i - 1] != c]
                    if t[0] != "ok" or dedup != model:
                        res.disagree("slot order of the per-index prange loop", function=name, operator=label, info=info,
                                     impl=dedup[:12], model=model[:12])
                    if any(len(c) != 2 for c in log):
                        res.disagree("per-index result is not one-dimensional", function=name)
                handlers.append(h)
                res.case(("trace", label, name), nontrivial=info["n"] > 1)
    if reqs:
        answers = run_driver(reqs)
        for h in handlers:
            h(answers)
    res.count("kernel_trace_requests", len(reqs))
    return res


# ------------------------------------------------------------------------------------------------
# oracle


def _conflicts(l2g, mult, sup, cm):
    """first pair of equally coloured support elements sharing a dof: through any entries / through entries with
    non-zero multiplier.  Each is (colour, dof, e, e') or None."""
    found = []
    for nzonly in (False, True):
        owner, hit = {}, None
        for e in range(l2g.shape[0]):
            if not sup[e]:
                continue
            c = int(cm[e])
            for d, m in zip(l2g[e], mult[e]):
                if nzonly and m == 0:
                    continue
                k = (c, int(d))
                o = owner.setdefault(k, e)
                if o != e and hit is None:
                    hit = (c, int(d), o, e)
        found.append(hit)
    return found[0], found[1]


def _large_launch_oracle(ctx):
    """the launch schedule of the dense assembler on a grid large enough for any blocking heuristic (> 4096 trial
    elements), recorded with the kernels stubbed, under 1 thread and under all threads: one kernel call per colour of
    the dual_to_range space, every call receives ALL trial elements in the order of domain.get_elements_by_color(),
    and the sequence of calls does not depend on numba.get_num_threads() (the order in which contributions are added
    to an entry of the result is fixed by this sequence)."""
    import numpy as np
    import numba
    import bempp_cl.api as api
    from bempp_cl.core import numba_kernels as nk
    from vlib import meshgen as mg
    res = Result()
    V, E = mg.cube(19)          # 12 * 19^2 = 4332 elements
    grid = api.Grid(V, E)
    dp0 = api.function_space(grid, "DP", 0)
    p1 = api.function_space(grid, "P", 1)
    names = ["default_scalar_regular_kernel", "default_scalar_singular_kernel"]
    saved = {n: getattr(nk, n) for n in names}
    calls = []

    def stub(test_grid_data, trial_grid_data, nshape_test, nshape_trial, test_elements, trial_elements, *rest):
        calls.append((np.asarray(test_elements).astype(int).tolist(), np.asarray(trial_elements).astype(int).tolist()))
    nthreads0 = numba.get_num_threads()
    maxthreads = numba.config.NUMBA_NUM_THREADS
    recorded = {}
    try:
        setattr(nk, names[0], stub)
        setattr(nk, names[1], lambda *a: None)
        for t in sorted({1, maxthreads}):
            numba.set_num_threads(t)
            for label, test, trial in (("dp0xp1", dp0, p1), ("p1xp1", p1, p1)):
                calls.clear()
                api.operators.boundary.laplace.single_layer(trial, test, test, assembler="dense").weak_form()
                recorded[(label, t)] = [(list(a), list(b)) for a, b in calls]
    finally:
        numba.set_num_threads(nthreads0)
        for n, f in saved.items():
            setattr(nk, n, f)
    for label, test, trial in (("dp0xp1", dp0, p1), ("p1xp1", p1, p1)):
        tidx, tptr = test.get_elements_by_color()
        tidx = np.asarray(tidx).astype(int).tolist()
        expect_test = [tidx[tptr[c]:tptr[c + 1]] for c in range(len(tptr) - 1)]
        expect_trial = np.asarray(trial.get_elements_by_color()[0]).astype(int).tolist()
        for t in sorted({1, maxthreads}):
            got = recorded[(label, t)]
            res.case(("large-launch", label, t), nontrivial=True,
                     sample=dict(kind="large-grid launch schedule", spaces=label, threads=t, elements=int(E.shape[1]),
                                 kernel_calls=len(got)) if t == maxthreads else None)
            if [g[0] for g in got] != expect_test or any(g[1] != expect_trial for g in got):
                short = next((len(g[1]) for g in got if g[1] != expect_trial), None)
                res.counterexample(
                    "dense-launch-schedule-not-one-call-per-colour",
                    f"dense single-layer assembly ({label}, {E.shape[1]} elements, {t} threads): {len(got)} kernel calls "
                    f"for {len(expect_test)} colours; a call received {short} of {len(expect_trial)} trial elements: the order "
                    f"in which contributions are added to a matrix entry is no longer the one the model fixes",
                    spaces=label, threads=t, kernel_calls=len(got), colours=len(expect_test))
        a, b = recorded[(label, 1)], recorded[(label, maxthreads)]
        if a != b:
            res.counterexample(
                "dense-launch-schedule-depends-on-thread-count",
                f"dense single-layer assembly ({label}, {E.shape[1]} elements): the sequence of kernel calls differs between 1 "
                f"and {maxthreads} threads ({len(a)} vs {len(b)} calls): summation order, hence the bits of the result, "
                f"depend on the thread count", spaces=label, calls_1_thread=len(a), calls_max_threads=len(b))
    return res


def oracle(ctx, deep=False):
    import numpy as np
    res = Result()
    spaces, _ = _spaces(ctx, deep)
    owned_fail = 0
    for item in spaces:
        sp, key = item["space"], item["key"]
        l2g, mult, sup = _space_arrays(sp)
        if l2g.size and int(l2g.max()) > 16 * l2g.size + 16:
            continue
        try:
            cm = np.asarray(sp.color_map)
        except StopIteration:
            res.counterexample(f"color-map-stopiteration-{item['kind']}",
                               f"_compute_color_map raises StopIteration for {key}", space=key)
            continue
        srt, ptr = sp.get_elements_by_color()
        nz0 = _zero_mult_count(mult, sup)
        res.case("oracle|" + key, nontrivial=(nz0 > 0 or len(ptr) - 1 >= 3))
        tag = item["kind"]
        # coloured exactly the support elements, launches partition the support
        supel = np.flatnonzero(sup).tolist()
        if sorted(np.asarray(srt).astype(int).tolist()) != supel or np.any((cm >= 0) != sup.astype(bool)):
            res.counterexample(f"launches-not-partition-{tag}", f"elements by colour are not a partition of the support "
                               f"for {key}", space=key)
        ok, e = _owned_python(l2g, mult, sup)
        if not ok:
            owned_fail += 1
            res.notes.append(f"artificial_dof_owned fails for {key} at element {e}: row {l2g[e].tolist()} "
                             f"multipliers {mult[e].tolist()}")
        call, cnz = _conflicts(l2g, mult, sup, cm)
        if call is not None:
            c, d, e1, e2 = call
            res.counterexample(
                f"same-colour-shared-dof-{tag}",
                f"support elements {e1} and {e2} of {key} both have colour {c} and both list global dof {d} in "
                f"local2global (rows {l2g[e1].tolist()} / {l2g[e2].tolist()}, multipliers {mult[e1].tolist()} / "
                f"{mult[e2].tolist()}): one kernel launch updates row {d} of the result from two iterations",
                space=key, colour=c, dof=d, elements=[e1, e2], artificial_dof_owned=ok,
                nonzero_multiplier_conflict=cnz is not None,
                local2global=l2g.tolist() if l2g.shape[0] <= 64 else None,
                multipliers=mult.tolist() if l2g.shape[0] <= 64 else None, support=sup.astype(int).tolist()
                if l2g.shape[0] <= 64 else None)
    res.stats["artificial_dof_owned_failures"] = owned_fail
    res.stats["oracle_spaces"] = len(spaces)
    res.merge(_recorded_oracle(ctx, spaces, deep))
    res.merge(_large_launch_oracle(ctx))
    _FOUND["n"] += len(res.counterexamples)
    tm = _thread_matrix(ctx, deep)
    _FOUND["n"] += len(tm.counterexamples)
    res.merge(tm)
    return res


_FOUND = {"n": 0, "tie": 0}


def search(ctx, broken):
    """failing-input search after a broken proof / tie: the oracle with the thorough-size generators, unless the
    oracle of this run has already produced a concrete counterexample"""
    if _FOUND["n"]:
        return Result()
    return oracle(ctx, deep=True)


# ------------------------------------------------------------------------------------------------
# thread matrix: the same assemblies in subprocesses with different NUMBA_NUM_THREADS

# potentials are evaluated at 37, 7, 3 and 1 points: the number of evaluation points is an input size like any other (seeded
# change C16-d gave "a handful of points" its own branch with a prange reduction over the source quadrature points)
OPS = ["laplace_slp_p1", "laplace_slp_p1_segment", "maxwell_efield_rwg", "laplace_potential_p1", "identity_p1",
       "laplace_potential_p1_7pts", "laplace_potential_p1_3pts", "laplace_potential_p1_1pt"]


def _worker(ncube, seed, rounds):
    """Runs in a subprocess: assemble, hash raw bytes; prints one JSON line."""
    import random
    import numpy as np
    import numba
    import bempp_cl.api as api
    from vlib import meshgen as mg
    rng = random.Random(1000 + seed)
    V, E = mg.cube(ncube)
    V = mg.perturb(V, 0.02, rng)
    D = np.array([(j * 7 + seed) % 3 for j in range(E.shape[1])], dtype=np.uint32)
    grid = api.Grid(V, E, D)
    p1 = api.function_space(grid, "P", 1)
    p1s = api.function_space(grid, "P", 1, segments=[0, 1], include_boundary_dofs=True, truncate_at_segment_edge=False)
    rwg = api.function_space(grid, "RWG", 0)
    snc = api.function_space(grid, "SNC", 0)
    pts = np.array([[2.0 + 0.1 * i, 1.5 - 0.07 * i, 0.3 + 0.05 * i] for i in range(37)]).T
    coeffs = np.array([np.sin(1.0 + 0.37 * i) for i in range(p1.global_dof_count)])

    def md5(*arrs):
        h = hashlib.md5()
        for a in arrs:
            h.update(np.ascontiguousarray(a).tobytes())
        return h.hexdigest()

    def run(name):
        if name == "laplace_slp_p1":
            return md5(api.operators.boundary.laplace.single_layer(p1, p1, p1, assembler="dense").weak_form().to_dense())
        if name == "laplace_slp_p1_segment":
            return md5(api.operators.boundary.laplace.single_layer(p1s, p1s, p1s, assembler="dense").weak_form().to_dense())
        if name == "maxwell_efield_rwg":
            return md5(api.operators.boundary.maxwell.electric_field(rwg, rwg, snc, 1.3, assembler="dense")
                       .weak_form().to_dense())
        if name.startswith("laplace_potential_p1"):
            npts = {"laplace_potential_p1": 37, "laplace_potential_p1_7pts": 7, "laplace_potential_p1_3pts": 3,
                    "laplace_potential_p1_1pt": 1}[name]
            pot = api.operators.potential.laplace.single_layer(p1, np.ascontiguousarray(pts[:, :npts]))
            return md5(pot.evaluate(api.GridFunction(p1, coefficients=coeffs)))
        if name == "identity_p1":
            m = api.operators.boundary.sparse.identity(p1, p1, p1).weak_form().to_sparse().tocsr()
            m.sort_indices()
            return md5(m.data, m.indices, m.indptr)
        raise ValueError(name)

    out = dict(threads=numba.get_num_threads(), layer=None, elements=int(E.shape[1]),
               colours=dict(p1=int(1 + max(p1.color_map)), p1_segment=int(1 + max(p1s.color_map)),
                            snc=int(1 + max(snc.color_map))), rounds=[])
    for r in range(rounds):
        order = list(OPS)
        random.Random(seed * 31 + r).shuffle(order)  # interleave with other assemblies in a different order
        out["rounds"].append({n: run(n) for n in order})
    try:
        out["layer"] = numba.threading_layer()
    except Exception:  # noqa
        pass
    print("C16WORKER " + json.dumps(out), flush=True)


class _Matrix:
    """Pool of worker subprocesses (at most `maxpar` at a time); started early so that the JIT time of the workers
    overlaps with the correspondence run."""

    def __init__(self, ctx, deep):
        big = ctx.thorough or deep
        self.threads = [1, 2, 7, 16] if big else [1, 7]
        self.repeats = 2 if big else 1
        self.ncube = 4 if big else 3
        self.rounds = 2
        self.seed = ctx.seed
        self.pending = [(t, r) for r in range(self.repeats) for t in self.threads]
        self.running = []
        self.results = {}
        self.failed = []
        self.maxpar = 4
        self.t0 = time.time()
        env = dict(os.environ)
        env["PYTHONPATH"] = ROOT + os.pathsep + REPO + os.pathsep + env.get("PYTHONPATH", "")
        env["NUMBA_DISABLE_PERFORMANCE_WARNINGS"] = "1"
        self.env = env
        self.fill()

    def fill(self):
        while self.pending and len(self.running) < self.maxpar:
            t, r = self.pending.pop(0)
            env = dict(self.env)
            env["NUMBA_NUM_THREADS"] = str(t)
            p = subprocess.Popen([sys.executable, "-W", "ignore", "-m", "props.c16", "--worker", str(self.ncube),
                                  str(self.seed), str(self.rounds)], cwd=ROOT, env=env, stdout=subprocess.PIPE,
                                 stderr=subprocess.PIPE, text=True)
            self.running.append(((t, r), p))

    def collect(self):
        while self.pending or self.running:
            self.fill()
            (t, r), p = self.running.pop(0)
            try:
                so, se = p.communicate(timeout=1500)
            except subprocess.TimeoutExpired:
                p.kill()
                raise RuntimeError(f"thread-matrix worker NUMBA_NUM_THREADS={t} timed out")
            line = next((l for l in so.splitlines() if l.startswith("C16WORKER ")), None)
            if p.returncode != 0 or line is None:
                self.failed.append(f"NUMBA_NUM_THREADS={t} rc={p.returncode}: {se[-600:]}")
                continue
            self.results[(t, r)] = json.loads(line[len("C16WORKER "):])
        return self.results


_MATRIX = {}


def _matrix(ctx, deep=False):
    k = (ctx.seed, ctx.tier, deep)
    if k not in _MATRIX:
        _MATRIX[k] = _Matrix(ctx, deep)
    return _MATRIX[k]


def _thread_matrix(ctx, deep=False):
    res = Result()
    mx = _matrix(ctx, deep)
    results = mx.collect()
    threads, repeats, rounds, ncube = mx.threads, mx.repeats, mx.rounds, mx.ncube
    if mx.failed:
        # a crashed worker is an infrastructure error unless this run has already shown the colouring / launch loop
        # to be broken (then the crash is a consequence and the concrete counterexamples are reported instead)
        if not (_FOUND["n"] or _FOUND["tie"]):
            raise RuntimeError("thread-matrix worker failed: " + " | ".join(mx.failed)[:2000])
        res.notes.append("thread-matrix workers crashed: " + " | ".join(mx.failed)[:600])
        threads = sorted({t for t, _ in results})
        if not results:
            return res
    res.stats["thread_matrix_seconds"] = round(time.time() - mx.t0, 1)
    ref_key = sorted(results)[0]
    ref = results[ref_key]["rounds"][0]
    info = results[ref_key]
    res.stats["thread_matrix"] = dict(threads=threads, repeats=repeats, rounds_per_process=rounds,
                                      elements=info["elements"], colours=info["colours"],
                                      threading_layer=info.get("layer"),
                                      reported_threads={str(k[0]): v["threads"] for k, v in results.items()},
                                      reference_md5=ref)
    for op in OPS:
        seen = {}
        for (t, r), out in sorted(results.items()):
            for k, rd in enumerate(out["rounds"]):
                seen.setdefault(rd[op], []).append(dict(threads=t, process=r, round=k))
        ncol = max(info["colours"].values())
        res.case(("thread-matrix", op, tuple(threads)), nontrivial=len(threads) >= 2 and ncol >= 3,
                 sample=dict(thread_matrix=op, threads=threads, md5=ref[op], assemblies=sum(len(v) for v in seen.values())))
        if len(seen) != 1:
            res.counterexample(f"thread-matrix-{op}",
                               f"{op} on the {info['elements']}-element perturbed cube is not bitwise reproducible: "
                               f"{len(seen)} different md5 over NUMBA_NUM_THREADS in {threads}: "
                               + "; ".join(f"{h[:8]}: {v[:3]}" for h, v in seen.items()),
                               operator=op, threads=threads, md5={h: v for h, v in seen.items()},
                               cube_n=ncube, mesh_seed=ctx.seed)
    return res


if __name__ == "__main__":
    if len(sys.argv) >= 5 and sys.argv[1] == "--worker":
        _worker(int(sys.argv[2]), int(sys.argv[3]), int(sys.argv[4]))
