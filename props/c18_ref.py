"""C18 helper: how the harness and the FRESH reference interpreter build grids, spaces, operators and dense results.

Run as a script (`python -m props.c18_ref jobs.json out.npz`) it is the reference worker: a new interpreter that computes
what the explicit arguments alone determine.  Every job sets the global parameters AND passes an explicit parameter
object with the same values, builds its own grid / space objects and clears the FMM caches first, so whichever object an
assembler reads it sees the resolved values.  The first job of a worker is recomputed at the end; a difference between
the two results is reported (`repeat_diff`)."""
import json
import os
import sys

FIELDS = ("regular", "singular", "expansion", "ncrit", "depth")
DEFAULTS = dict(regular=4, singular=4, expansion=5, ncrit=400, depth=4)
KERNELS = {0: ("laplace", None), 1: ("modified_helmholtz", 1.5)}


def make_mesh(g):
    from vlib import meshgen

    if g == 0:
        return meshgen.octahedron()
    if g == 1:
        return meshgen.tetrahedron()
    return meshgen.cube(1)


def points(i):
    import numpy as np

    if i == 0:
        return np.array([[2.0, 0.1, 0.3], [0.5, 3.0, -1.0], [-1.5, -2.0, 0.25]]).T.copy()
    return np.array([[0.0, 0.0, 4.0], [3.0, 3.0, 3.0]]).T.copy()


def set_fields(obj, values):
    obj.quadrature.regular = int(values["regular"])
    obj.quadrature.singular = int(values["singular"])
    obj.fmm.expansion_order = int(values["expansion"])
    obj.fmm.ncrit = int(values["ncrit"])
    obj.fmm.depth = int(values["depth"])


def get_fields(obj):
    return dict(regular=obj.quadrature.regular, singular=obj.quadrature.singular, expansion=obj.fmm.expansion_order,
                ncrit=obj.fmm.ncrit, depth=obj.fmm.depth)


def set_field(obj, field, v):
    if field in ("regular", "singular"):
        setattr(obj.quadrature, field, int(v))
    else:
        setattr(obj.fmm, {"expansion": "expansion_order"}.get(field, field), int(v))


PREC = {"s": "single", "d": "double", "n": None}


def make_bop(api, asm, kern, space, parameters, precision):
    """precision: 'single' | 'double' | None"""
    if asm == "sparse":
        return api.operators.boundary.sparse.identity(space, space, space, parameters=parameters, precision=precision)
    assembler = {"dense": "dense", "singular": "only_singular_part", "fmm": "fmm"}[asm]
    mode, w = KERNELS[kern]
    if mode == "laplace":
        return api.operators.boundary.laplace.single_layer(space, space, space, parameters=parameters,
                                                           assembler=assembler, precision=precision)
    return api.operators.boundary.modified_helmholtz.single_layer(space, space, space, w, parameters=parameters,
                                                                  assembler=assembler, precision=precision)


def make_pot(api, asm, kern, space, pts, parameters):
    mode, w = KERNELS[kern]
    if mode == "laplace":
        return api.operators.potential.laplace.single_layer(space, pts, parameters=parameters, assembler=asm)
    return api.operators.potential.modified_helmholtz.single_layer(space, pts, w, parameters=parameters, assembler=asm)


def coefficients(n):
    import numpy as np

    return 1.0 + 0.125 * np.arange(n)


def dense_of(dop):
    """dense matrix of a discrete operator, column by column (works for FMM and product operators)"""
    import numpy as np

    n = dop.shape[1]
    cols = []
    for j in range(n):
        e = np.zeros(n)
        e[j] = 1.0
        cols.append(np.asarray(dop @ e).ravel())
    return np.column_stack(cols)


def compute(api, job):
    import numpy as np
    from bempp_cl.api.utils.parameters import DefaultParameters

    values = dict(DEFAULTS)
    values.update(job.get("params", {}))
    set_fields(api.GLOBAL_PARAMETERS, values)
    p = DefaultParameters()
    set_fields(p, values)
    api.clear_fmm_cache()
    V, E = make_mesh(job["grid"])
    grid = api.Grid(V, E)
    space = api.function_space(grid, "DP", 0)
    kind = job["kind"]
    if kind == "weak":
        op = make_bop(api, job["asm"], job["kern"], space, p, job["prec"])
        return dense_of(op.weak_form())
    if kind == "mass":
        return dense_of(space.mass_matrix())
    if kind == "pot":
        pot = make_pot(api, job["asm"], job["kern"], space, points(job["pts"]), p)
        gf = api.GridFunction(space, coefficients=coefficients(space.global_dof_count))
        return np.asarray(pot.evaluate(gf))
    raise ValueError(kind)


def main(jobfile, outfile):
    with open(jobfile) as f:
        jobs = json.load(f)
    from vlib import fmmstub

    if any(j.get("asm") == "fmm" for j in jobs):
        fmmstub.enable()
    import numpy as np
    import bempp_cl.api as api

    out = {}
    with fmmstub.scratch_cwd():
        for j in jobs:
            out[j["id"]] = compute(api, j)
        if jobs:
            again = compute(api, jobs[0])
            out["__repeat_diff__"] = np.array(float(np.abs(again - out[jobs[0]["id"]]).max()))
    np.savez(outfile, **out)


if __name__ == "__main__":
    sys.path.insert(0, os.path.dirname(os.path.dirname(os.path.abspath(__file__))))
    main(sys.argv[1], sys.argv[2])
