"""C07 — Boundary operators between disjoint grids equal Galerkin-tested potentials."""
from vlib.common import Result
from props import shared

PID = "C07"
LEAN_MODULES = ['BemppVerif.Props.C07', 'BemppVerif.Gen.AsmMatch']
LEAN_MODULES += shared.CTOR_MODULES
N = "BemppVerif.C07."
THEOREMS = []
PARTIAL = {N + "regular_eq_tested_potential": "scalar: proved for kernels that do not depend on the test normal (single and double "
           "layer of all scalar families).  Maxwell (generated, traces of the real assemblers on two disjoint grids vs traces of the "
           "real potential assemblers): magnetic field: boundary entry = MINUS the Galerkin-tested potential (exact; the sign is that "
           "of psi_t.(grad G x psi_s) = -grad G.(psi_t x psi_s)); electric field: boundary entry = minus the tested potential minus "
           "an explicit remainder, (1/ik) x the QUADRATURE of the surface divergence div_x(psi_t G) against div psi_s (the boundary "
           "form is integrated by parts; the remainder's exact integral is an edge flux and it is not zero for a quadrature rule): "
           "that this remainder is small is oracle-only"}
TRUSTED = [
    "Tie B: assembler tracing (vlib/asmtrace.py, props/asm_gen.py, props/asm_gen_mx.py) and kernel tracing (props/kernels_gen.py): "
    "the generated theorems are about terms recorded while running the undecorated source of the real functions",
    "hand model Model/Asm.lean tied to the source by the generated AsmMatch theorems (symbolic, one generic configuration)",
    "classical analysis that is used but not formalised is named in PARTIAL",
    shared.CTOR_TRUSTED,
]
ASSUMPTIONS = []
RULE = 'correspondence: compiled assemblers (scalar and Maxwell, two grids; potentials) vs their traces at random numeric configurations (Tie B validation); oracle: props/c07_oracle.py'
LEVEL_TEXT = ('Lean 4 theorems: for all sizes the regular local integral with no skipped pairs equals the test function integrated against '
              'the potential of the trial shape function (model), and 24 generated theorems state the same identity between the TRACE of '
              'the real boundary assembler on two different grids and the TRACE of the real potential assembler, for every kernel '
              'independent of the test normal.  Maxwell: 25 generated theorems: traced maxwell_mfield_regular_assembler entry = '
              '-(sum_p w_p ie_tau psi_test(p) . traced maxwell_mfield_potential at x_p); 25 generated theorems: traced '
              'maxwell_efield_regular_assembler entry = -(tested traced maxwell_efield_potential) - remainder (quadrature of a surface '
              'divergence, written out).')
LEVEL_NOTE = 'partial: smallness of the E-field integration-by-parts remainder is oracle-only. Trusted: Lean kernel, tracers, hand model tied by generated match theorems.'
TECHNIQUE = 'Lean 4 proof (model identity + ring identities between traces of the two real assemblers) + numerical oracle'


def generate(ctx):
    info = dict(kernels=shared.gen_kernels()[0], asm=shared.gen_asm()[0])
    THEOREMS[:] = ([N + t for t in ("regular_eq_tested_potential", "disjoint_grids_regular_only", "element_major_index_injective")]
                   + [shared.SPEC + "localReg_eq_tested_potential"]
                   + shared.asm_theorems("two_grid_operator", "potential_matches", "regular_matches")
                   + shared.mx_theorems("C07"))
    info.update(shared.gen_ctors()[0])
    THEOREMS.extend(shared.ctor_theorems('laplace_boundary', 'helmholtz_boundary', 'modified_boundary', 'maxwell_boundary', 'laplace_potential', 'helmholtz_potential', 'modified_potential', 'maxwell_potential')
                    + [t for t in shared.CTOR_SPEC if t.split('.')[-1] in ('singular_part_and_dtype', 'maxwell_kernel_and_dimension')])
    return info


def correspondence(ctx):
    return shared.trace_validation(ctx, PID)


def oracle(ctx, deep=False):
    f = shared.load_oracle(PID)
    if f is None:
        r = Result()
        r.notes.append("props/c07_oracle.py not present: no numerical oracle run")
        return r
    return f(ctx, deep)


def search(ctx, broken):
    return oracle(ctx, deep=True)
