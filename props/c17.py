"""C17 — FMM-mode operators equal dense-mode ones given an exact far-field evaluator.

The exafmm extension is replaced by vlib/exafmm_stub (exact direct summation, written independently of
bempp_cl/api/fmm/helpers.py).  Tie C: the real sparse point maps / transform index arrays / the whole scalar
matvec are compared with the Lean model (lean/BemppVerif/Model/Fmm.lean) through the native driver.
Oracle: real code with the stub vs assembler="dense".
"""
import os
from fractions import Fraction as F

from vlib.common import Result, run_driver, build_driver, REPO

PID = "C17"
LEAN_MODULES = ["BemppVerif.Props.C17", "BemppVerif.Lemmas.FmmKernelFacts"]
N = "BemppVerif.C17."
THEOREMS = [N + t for t in [
    "fmm_matvec_eq_dense", "fmm_matvec_eq_dense_dof", "fmm_matvec_eq_dense_two_grids", "fmm_potential_eq_dense",
    "point_map_indexing_partial", "point_map_indexing_counterexample", "point_map_indexing_patched",
    "transform_indexing_partial", "transform_indexing_counterexample",
    "dl_from_gradient", "adl_from_gradient", "fmm_dl_eq_dense", "fmm_adl_eq_dense",
]]
# near-field kernels (api/fmm/helpers.py, re-traced on every run) = the canonical Green's functions the dense kernels compute
FK = "BemppVerif.FmmKernels."
THEOREMS += ([FK + f"{fam}_{w}_{br}" for fam in ("laplace", "modified") for w in ("c0", "grad_nx", "grad_ny") for br in ("im0", "imnz")]
             + [FK + f"helmholtz_{w}_{br}_{part}" for w in ("c0", "grad_nx", "grad_ny") for br in ("im0", "imnz")
                for part in ("re", "im")])
PARTIAL = {
    N + "point_map_indexing_partial": "statement about the code BEFORE the repair 3660968 (arrays sized by the support "
    "addressed with the grid element index: needs support = all elements; point_map_indexing_counterexample shows the old "
    "code failing on a segment).  The repaired code is the byPos variant, proved for EVERY support in "
    "point_map_indexing_patched; the correspondence compares the real arrays with that variant (MODEL_VARIANT='patched')",
    N + "transform_indexing_partial": "statement about the code BEFORE the repair (point rows written with the support "
    "position): equal to the element rows only for support = all elements (transform_indexing_counterexample).  After the "
    "repair the arrays are npts*element+q by definition of the model variant rowsByElem, compared with the real arrays",
    N + "fmm_matvec_eq_dense": "scalar default pipeline with an abstract kernel (covers single layer and, through "
    "dl/adl_from_gradient, double and adjoint double layer); hypersingular and Maxwell evaluators (curl / RWG / div "
    "transforms contracted with the same corrected evaluator) are covered by the index-array theorems, the correspondence "
    "and the oracle only; near_field_is_adjacent_pairs is an explicit hypothesis (C11 discharges it on the grid model)",
}
TRUSTED = [
    "Tie B for the near-field kernels: vlib/symtrace.py runs the undecorated source of api/fmm/helpers.py {laplace,"
    "modified_helmholtz,helmholtz}_kernel on symbolic points; Lemmas/FmmKernelFacts.lean proves the traces equal G and its "
    "gradient contracted with n_x / n_y (the canonical forms the dense kernels are proved to equal in Lemmas/KernelFacts.lean)",
    "hand model lean/BemppVerif/Model/Fmm.lean of map_space_to_points_impl, map_to_localised_space, the transform index "
    "arrays, the near-field matrix and make_default_scalar, tied by differential comparison through the native driver",
    "vlib/exafmm_stub: exact direct summation standing in for exafmm-t (exafmm itself is not verified: the property is "
    "conditional on an exact far-field evaluator)",
    "basis values, quadrature weights, integration elements and kernel values are given data of the model (C09/C10/C12)",
]
ASSUMPTIONS = [
    "oracle tolerance ||fmm x - dense x|| <= 1e-11 ||dense x|| (observed 1e-16..1e-14)",
    "recorded reference vectors: elementwise rtol 2e-3 as in test/validation/fmm/test_fmm.py",
    "spaces with an empty support (e.g. P1 without boundary dofs on a segment without interior vertices) are excluded",
]
RULE = ("correspondence: map_space_to_points_impl triplets (rows/columns exactly, values to 1e-14), composed map_to_points "
        "matrix, transform index arrays and the scalar FMM/dense-regular matvec vs the model, on whole-grid, segment "
        "(support not a prefix of the element list) and barycentric spaces and grid pairs; oracle: operator family x space "
        "variant x grid pair x vector type; a case is non-trivial when the support is a proper non-prefix subset, the space "
        "is barycentric/dual, the grids differ, the kernel is gradient based / complex, or the multipliers are not all 1; "
        "distinct by (what, family, grid, space variant, order)")
LEVEL_TEXT = ("Lean 4 theorems for all sizes, supports, dof maps, kernels over any commutative ring and all vectors: the scalar FMM "
              "matvec target_map^T (all-pairs - near-field)(source_map x) equals the dense regular assembler's sum over "
              "non-adjacent element pairs, given that the near-field neighbour lists are exactly the skipped pairs; potential "
              "variant; double / adjoint double layer assembled from the 4-component evaluator output with the right signs; "
              "point-map and transform index arrays (repaired code: all supports; the code before the repair: whole-grid supports "
              "only, with a counterexample theorem for segments).  The model is compared with the real sparse maps, index arrays and "
              "matvecs through the native driver; the real FMM operators (exact-summation exafmm stub) are compared with the "
              "dense ones for all operator families, space variants and grid pairs.")
LEVEL_NOTE = ("partial: hypersingular and Maxwell evaluators are covered by index-array theorems + correspondence + oracle, not by a "
              "matvec theorem; exafmm itself is replaced by an exact stub.  The defect fmm-segment-space-point-maps (every FMM operator on a "
              "segment space raised or was silently wrong) was repaired in /repo (3660968); the check models the repaired code.  Trusted: Lean kernel, "
              "hand model Model/Fmm.lean tied by differential comparison, exafmm stub, IEEE rounding not modelled.")
TECHNIQUE = "Lean 4 proof (list-sum algebra over a commutative ring, decide on witnesses) + differential correspondence + oracle with an exact exafmm stub"

# The model variant the correspondence compares with: "code" = the tree as it stands; switch to "patched" once
# findings/proposed_c17.diff is applied to /repo (then point_map_indexing_patched / the rowsByElem variant are the
# statements about the code, and the *_counterexample theorems document the repaired defect).
MODEL_VARIANT = "patched"
FINDING_KEY = "fmm-segment-space-point-maps"
TOL = 1e-11
QUICK_BUDGET_S = float(os.environ.get("C17_QUICK_BUDGET_S", "195"))  # quick tier: optional oracle items (second family, dual test space, second potential) start only
#                       while the run is younger than this; the Laplace single layer whole/segment/two-grid cases and
#                       the single-layer potential always run


def generate(ctx):
    from props import c20, shared
    kinfo, _ = shared.gen_kernels()            # Gen/NumbaKernels.lean (canonical forms are stated against these)
    _fmm, _shp, changed = c20.gen_fmm_kernels()  # Gen/FmmKernels.lean: traces of the Numba FMM helper kernels
    return dict(fmm_helper_kernels=len(_fmm), fmm_kernels_changed=bool(changed), **{k: v for k, v in kinfo.items() if k != "changed"})


# ------------------------------------------------------------------------------------------------
# helpers


def _api():
    from vlib import fmmstub
    fmmstub.enable()
    import bempp_cl.api as api
    return api


def _rat(x):
    fr = F(float(x))
    return f"{fr.numerator}/{fr.denominator}" if fr.denominator != 1 else str(fr.numerator)


def _grids(ctx, small=False):
    """name -> (V, E, D): D chosen so that every segment is a non-prefix subset of the elements."""
    import numpy as np
    from vlib import meshgen
    out = {}
    V, E = meshgen.octahedron()
    out["octa"] = (V, E, np.array([1, 0, 0, 1, 1, 0, 2, 1]))
    V, E = meshgen.cube(1)
    out["cube1"] = (V, E, np.array([(j // 2) % 3 for j in range(E.shape[1])]))
    if not small:
        V, E = meshgen.cube(2)
        out["cube2"] = (V, E, np.array([(j // 8) % 2 + (1 if j % 5 == 0 else 0) for j in range(E.shape[1])]))
        V, E = meshgen.screen(2, 2)
        out["screen"] = (V, E, np.array([(j + 1) % 2 for j in range(E.shape[1])]))
    return out


def _mkgrid(api, VED, rng=None, shift=None, scale=1.0):
    import numpy as np
    from vlib import meshgen
    V, E, D = VED
    V = np.array(V, float) * scale
    if shift is not None:
        V = V + np.array(shift, float)[:, None]
    if rng is not None:
        V, E, D = meshgen.relabel(V, E, rng, D)
    return api.Grid(np.asfortranarray(V), np.asfortranarray(E.astype("uint32")), np.array(D, dtype="uint32"))


def _is_prefix(space):
    import numpy as np
    s = np.asarray(space.support_elements, dtype=np.int64)
    return bool(np.array_equal(s, np.arange(len(s))))


def _is_whole(space):
    return space.number_of_support_elements == space.grid.number_of_elements


def _space_block(space, local_points):
    """Tokens of a driver space-block (see lean/Driver/Fmm.lean) from the REAL space object."""
    import numpy as np
    grid = space.grid
    ne = grid.number_of_elements
    ns = space.number_of_shape_functions
    npts = local_points.shape[1]
    loc = space.localised_space
    gd = grid.data("double")
    basis = np.zeros((ne, ns, npts))
    for e in space.support_elements:
        basis[e] = space.numba_evaluate(int(e), space.shapeset.evaluate, local_points, gd, loc.local_multipliers,
                                        loc.normal_multipliers)[0, :, :]
    toks = [str(ne), str(ns), str(len(space.support_elements))]
    toks += [str(int(e)) for e in space.support_elements]
    toks += [str(int(v)) for v in np.asarray(space.local2global).ravel()]
    toks += [_rat(v) for v in np.asarray(space.local_multipliers, dtype=float).ravel()]
    toks += [_rat(v) for v in basis.ravel()]
    toks += [_rat(v) for v in grid.integration_elements]
    return toks, basis


def _point_cloud(grid, local_points):
    """element-major point cloud P[npts*e+q] = v0 + (v1-v0) x_q + (v2-v0) y_q, computed from the vertices"""
    import numpy as np
    V, E = grid.vertices, grid.elements
    npts = local_points.shape[1]
    P = np.empty((npts * grid.number_of_elements, 3))
    for e in range(grid.number_of_elements):
        v0, v1, v2 = (V[:, E[i, e]] for i in range(3))
        for q in range(npts):
            P[npts * e + q] = v0 + (v1 - v0) * local_points[0, q] + (v2 - v0) * local_points[1, q]
    return P


def _parse_entries(ans):
    t = ans.split()
    if t[0] != "ok":
        return None
    n = int(t[1])
    rows = [int(t[2 + 3 * i]) for i in range(n)]
    cols = [int(t[3 + 3 * i]) for i in range(n)]
    vals = [F(t[4 + 3 * i]) for i in range(n)]
    return rows, cols, vals


def _space_configs(api, grid, ctx, thorough, only=None, bary=None):
    """(label, space) for whole-grid, segment and barycentric scalar spaces on `grid`."""
    import numpy as np
    out = []
    segs = sorted(set(int(d) for d in grid.domain_indices))
    seg = [segs[-1]]

    def add(label, f):
        try:
            sp = f()
        except Exception as e:  # noqa
            return
        if sp.number_of_support_elements == 0:
            return
        out.append((label, sp))
    add("DP0-whole", lambda: api.function_space(grid, "DP", 0))
    add("P1-whole", lambda: api.function_space(grid, "P", 1))
    add("DP0-segment", lambda: api.function_space(grid, "DP", 0, segments=seg))
    add("P1-segment-bd", lambda: api.function_space(grid, "P", 1, segments=seg, include_boundary_dofs=True))
    if only is not None:
        return [(l, s_) for l, s_ in out if l in only]
    if thorough:
        add("DP1-whole", lambda: api.function_space(grid, "DP", 1))
        add("DP1-segment", lambda: api.function_space(grid, "DP", 1, segments=seg))
        add("P1-segment-trunc", lambda: api.function_space(grid, "P", 1, segments=seg, include_boundary_dofs=True,
                                                          truncate_at_segment_edge=True))
        ne = grid.number_of_elements
        sup = np.array(sorted(ctx.rng.sample(range(1, ne), max(1, ne // 3))), dtype="uint32")
        add("DP0-support", lambda: api.function_space(grid, "DP", 0, support_elements=sup))
        add("DP0-swapped", lambda: api.function_space(grid, "DP", 0, swapped_normals=[segs[0]]))
    if thorough or bary == "DUAL0":
        add("DUAL0", lambda: api.function_space(grid, "DUAL", 0))
    if thorough or bary == "P1-bary":
        add("P1-bary", lambda: api.function_space(grid, "P", 1).barycentric_representation())
    if thorough:
        add("DUAL1", lambda: api.function_space(grid, "DUAL", 1))
        add("DP0-bary", lambda: api.function_space(grid, "DP", 0).barycentric_representation())
        add("DUAL0-segment", lambda: api.function_space(grid, "DUAL", 0, segments=seg))
    return out


# ------------------------------------------------------------------------------------------------
# correspondence


def _stub_self_test(ctx, res):
    """vlib/exafmm_stub versus a plain Python double loop over (target, source) pairs."""
    import cmath
    import math
    import numpy as np
    import exafmm.laplace as L
    import exafmm.helmholtz as H
    import exafmm.modified_helmholtz as M
    rng = ctx.rng
    ns, extra = 9, 4
    S = np.array([[rng.uniform(-1, 1) for _ in range(3)] for _ in range(ns)])
    T = np.vstack([S[:3], np.array([[rng.uniform(-2, 2) for _ in range(3)] for _ in range(extra)])])
    q = np.array([complex(rng.uniform(-1, 1), rng.uniform(-1, 1)) for _ in range(ns)])
    k, w = complex(rng.uniform(0.5, 2), rng.uniform(0, 0.6)), rng.uniform(0.3, 1.5)
    worst = 0.0
    for name, mod, fmm in (("laplace", L, L.LaplaceFmm(5, 400, filename="x")),
                           ("helmholtz", H, H.HelmholtzFmm(5, 400, k, filename="x")),
                           ("modified_helmholtz", M, M.ModifiedHelmholtzFmm(5, 400, w, filename="x"))):
        tree = mod.setup(mod.init_sources(S, np.zeros(ns)), mod.init_targets(T), fmm)
        mod.update_charges(tree, q)
        mod.clear_values(tree)
        got = np.asarray(mod.evaluate(tree, fmm))
        ref = np.zeros((len(T), 4), dtype=complex)
        for i, x in enumerate(T):
            for j, y in enumerate(S):
                d = x - y
                r = math.sqrt(float(d @ d))
                if r == 0:
                    continue
                if name == "laplace":
                    g = 1 / (4 * math.pi * r)
                    dg = -g / r
                elif name == "helmholtz":
                    g = cmath.exp(1j * k * r) / (4 * math.pi * r)
                    dg = g * (1j * k - 1 / r)
                else:
                    g = math.exp(-w * r) / (4 * math.pi * r)
                    dg = g * (-w - 1 / r)
                ref[i, 0] += g * q[j]
                ref[i, 1:] += dg * d / r * q[j]
        err = float(np.max(np.abs(got - ref)) / np.max(np.abs(ref))) if got.shape == ref.shape else 1.0
        worst = max(worst, err)
        res.case(("stub", name), nontrivial=True)
        if err > 1e-13:
            res.disagree("exafmm stub differs from the double-loop reference", kernel=name, rel_error=err)
    return worst


def correspondence(ctx):
    import numpy as np
    res = Result()
    api = _api()
    from vlib import fmmstub
    from bempp_cl.api.space import space as space_mod
    from bempp_cl.api.fmm import fmm_assembler
    from bempp_cl.api.integration.triangle_gauss import rule
    build_driver()
    by_pos = 1 if MODEL_VARIANT == "patched" else 0
    reqs, handlers = [], []
    worst = {"pmap": 0.0, "smap": 0.0, "mv_fmm": 0.0, "mv_dense": 0.0, "stub": 0.0}
    counts = {"pmap_impl_raises": 0, "pmap_cases": 0, "tidx_cases": 0, "mv_cases": 0}

    def add(line, h):
        reqs.append(line)
        handlers.append(h)

    grids = _grids(ctx, small=not ctx.thorough)
    if not ctx.thorough:
        # quick: octahedron + (two seeds out of three) the cube
        keep = {"octa"} if ctx.seed % 3 == 1 else {"octa", "cube1"}
        grids = {k: v for k, v in grids.items() if k in keep}
    orders = [1, 2, 3, 4, 5] if ctx.thorough else [2, 1 + ctx.seed % 4]
    # ---- (0) the exafmm stub against a plain double loop (all three kernels, coincident points skipped) -------
    worst["stub"] = _stub_self_test(ctx, res)
    # ---- (a) point maps ------------------------------------------------------------------
    for gname, VED in sorted(grids.items()):
        grid = _mkgrid(api, VED, rng=ctx.rng if ctx.rng.random() < 0.5 else None)
        if ctx.thorough:
            cfgs = _space_configs(api, grid, ctx, True)
        else:
            # quick: one space family by seed (whole grid + segment: each family costs a JIT compilation of
            # map_space_to_points_impl), every third seed a barycentric kind instead of the second grid
            kinds = ("P1-whole", "P1-segment-bd") if ctx.seed % 2 == 0 else ("DP0-whole", "DP0-segment")
            cfgs = _space_configs(api, grid, ctx, False, only=kinds)
            if gname == "octa" and ctx.seed % 3 == 1:
                bk = ["DUAL0", "P1-bary"][(ctx.seed // 3) % 2]
                cfgs += [c for c in _space_configs(api, grid, ctx, False, bary=bk) if c[0] == bk]
        for label, sp in cfgs:
            for order in (orders if gname != "cube2" else orders[:1]):
                lp, w = rule(order)
                npts = lp.shape[1]
                loc = sp.localised_space
                try:
                    data, gi, vi = space_mod.map_space_to_points_impl(
                        sp.grid.data("double"), loc.local2global, loc.local_multipliers, loc.normal_multipliers,
                        sp.support_elements, sp.numba_evaluate, sp.shapeset.evaluate, lp, w,
                        sp.number_of_shape_functions)
                    st = "ok"
                    if npts * sp.number_of_shape_functions == 1 and not _is_prefix(sp) and MODEL_VARIANT == "code":
                        # blocks of length 1: NumPy broadcasting accepts a length-1 value for the EMPTY slice
                        # data[elem:elem+1] of an out-of-range block, nothing is written and the np.empty cells
                        # stay uninitialised (observed: indices like 94770500669070).  No defined result: the
                        # model's `none`.
                        st, data, gi, vi = "value-error", None, None, None
                        counts["pmap_impl_uninitialised"] = counts.get("pmap_impl_uninitialised", 0) + 1
                except ValueError:
                    st, data, gi, vi = "value-error", None, None, None
                except Exception as e:  # noqa
                    st, data, gi, vi = "other-error:" + type(e).__name__, None, None, None
                blk, basis = _space_block(sp, lp)
                wt = [_rat(v) for v in w]
                nontrivial = (not _is_prefix(sp)) or sp.is_barycentric or bool(np.any(sp.local_multipliers != 1))
                counts["pmap_cases"] += 1
                if st != "ok":
                    counts["pmap_impl_raises"] += 1

                def h(ans, st=st, data=data, gi=gi, vi=vi, label=label, gname=gname, order=order, sp=sp):
                    t = ans.split()
                    if st != "ok":
                        if not (t[:2] == ["err", "value-error"] and st == "value-error"):
                            res.disagree("point map status", grid=gname, space=label, order=order, impl=st,
                                         model=ans[:40], support=[int(e) for e in sp.support_elements][:12])
                        return
                    ent = _parse_entries(ans)
                    if ent is None:
                        res.disagree("point map status", grid=gname, space=label, order=order, impl="ok",
                                     model=ans[:40], support=[int(e) for e in sp.support_elements][:12],
                                     hint="the implementation succeeds where the model variant '%s' raises; if "
                                          "findings/proposed_c17.diff was applied set MODEL_VARIANT='patched'" % MODEL_VARIANT)
                        return
                    rows, cols, vals = ent
                    if rows != [int(v) for v in vi] or cols != [int(v) for v in gi]:
                        res.disagree("point map indices", grid=gname, space=label, order=order,
                                     impl_rows=[int(v) for v in vi][:8], model_rows=rows[:8],
                                     impl_cols=[int(v) for v in gi][:8], model_cols=cols[:8])
                        return
                    scale = max(1e-300, float(np.max(np.abs(data)))) if len(data) else 1.0
                    err = max([abs(float(v) - float(d)) for v, d in zip(vals, data)] or [0.0]) / scale
                    worst["pmap"] = max(worst["pmap"], err)
                    if err > 1e-14:
                        res.disagree("point map values", grid=gname, space=label, order=order, rel_error=err)
                add(" ".join(["fmmpmap", str(by_pos), str(npts)] + blk + wt), h)
                res.case(("pmap", gname, label, order), nontrivial=nontrivial,
                         sample=dict(kind="point-map", grid=gname, space=label, order=order, impl_status=st,
                                     support_size=int(sp.number_of_support_elements),
                                     elements=int(sp.grid.number_of_elements)))
                # composed matrix map_to_points(order) (only where the implementation succeeds)
                if st == "ok":
                    try:
                        M = sp.map_to_points(order) @ np.eye(sp.global_dof_count)
                        MT = sp.map_to_points(order, return_transpose=True) @ np.eye(npts * sp.grid.number_of_elements)
                    except Exception as e:  # noqa
                        res.disagree("map_to_points raises although map_space_to_points_impl succeeds", grid=gname,
                                     space=label, order=order, error=repr(e)[:200])
                        continue

                    def h2(ans, M=M, MT=MT, sp=sp, npts=npts, label=label, gname=gname, order=order):
                        ent = _parse_entries(ans)
                        if ent is None:
                            res.disagree("composed map status", grid=gname, space=label, order=order, model=ans[:40])
                            return
                        rows, cols, vals = ent
                        A = np.zeros((npts * sp.grid.number_of_elements, sp.grid_dof_count))
                        for r_, c_, v_ in zip(rows, cols, vals):
                            A[r_, c_] += float(v_)
                        A = A @ sp.dof_transformation.toarray() if hasattr(sp.dof_transformation, "toarray") \
                            else A @ np.asarray(sp.dof_transformation)
                        scale = max(1e-300, float(np.max(np.abs(A))))
                        err = float(np.max(np.abs(A - M))) / scale if A.shape == M.shape else 1.0
                        errT = float(np.max(np.abs(M.T - MT))) / scale if M.T.shape == MT.shape else 1.0
                        worst["smap"] = max(worst["smap"], err, errT)
                        if err > 1e-13 or errT > 1e-13:
                            res.disagree("composed point map", grid=gname, space=label, order=order, rel_error=err,
                                         transpose_rel_error=errT)
                    add(" ".join(["fmmsmap", str(npts)] + blk + wt), h2)
                    res.case(("smap", gname, label, order), nontrivial=nontrivial)
    ctx.log(f"correspondence (a) point maps prepared: {counts['pmap_cases']} cases")
    # ---- (b) transform index arrays ---------------------------------------------------------
    from bempp_cl.api.space.shapesets import _rwg0_shapeset_evaluate
    from bempp_cl.api.space.maxwell_spaces import _numba_rwg0_evaluate
    tkinds = ["curl", "rwg", "div"] if ctx.thorough else [["curl", "rwg", "div"][ctx.seed % 3]]
    gname = "octa"
    grid = _mkgrid(api, grids[gname])
    seg = [int(sorted(set(int(d) for d in grid.domain_indices))[-1])]
    for kind in tkinds:
        for variant in ("whole", "segment"):
            kw = {} if variant == "whole" else dict(segments=seg, include_boundary_dofs=True)
            sp = api.function_space(grid, "P", 1, **kw) if kind == "curl" else api.function_space(grid, "RWG", 0, **kw)
            for order in ([1, 2, 4] if ctx.thorough else [2]):
                lp, w = rule(order)
                gd = grid.data("double")
                if kind == "curl":
                    _, ii, jj = fmm_assembler.compute_p1_curl_transformation_impl(gd, sp.support_elements,
                                                                                 sp.normal_multipliers, lp, w)
                elif kind == "rwg":
                    _, ii, jj = fmm_assembler.compute_rwg_basis_transform_impl(
                        gd, _rwg0_shapeset_evaluate, _numba_rwg0_evaluate, sp.support_elements,
                        sp.localised_space.local_multipliers, sp.normal_multipliers, lp, w)
                else:
                    _, ii, jj = fmm_assembler.compute_rwg_div_transform_impl(
                        gd, _rwg0_shapeset_evaluate, _numba_rwg0_evaluate, sp.support_elements,
                        sp.localised_space.local_multipliers, sp.normal_multipliers, lp, w)
                counts["tidx_cases"] += 1

                def h3(ans, ii=ii, jj=jj, kind=kind, variant=variant, order=order, sp=sp):
                    t = ans.split()
                    n = int(t[1]) if t[0] == "ok" else -1
                    mi = [int(t[2 + 2 * k]) for k in range(max(n, 0))]
                    mj = [int(t[3 + 2 * k]) for k in range(max(n, 0))]
                    if n != len(ii) or mi != [int(v) for v in ii] or mj != [int(v) for v in jj]:
                        res.disagree("transform index arrays", transform=kind, space=variant, order=order,
                                     support=[int(e) for e in sp.support_elements], impl_iind=[int(v) for v in ii][:8],
                                     model_iind=mi[:8], impl_jind=[int(v) for v in jj][:8], model_jind=mj[:8])
                add(" ".join(["fmmtidx", str(by_pos), str(lp.shape[1]), str(len(sp.support_elements))]
                             + [str(int(e)) for e in sp.support_elements]), h3)
                res.case(("tidx", kind, variant, order), nontrivial=variant == "segment")
    ctx.log(f"correspondence (b) transform index arrays prepared: {counts['tidx_cases']} cases")
    # ---- (c) the scalar matvec end to end (Laplace single layer, kernel values handed to the model) ----------
    mv_cases = [("octa", "octa", "P1-whole", "P1-whole"), ("octa", "cube1", "P1-whole", "P1-whole"),
                ("octa", "octa", "P1-segment-bd", "P1-whole")]
    if ctx.thorough:
        mv_cases += [("cube1", "cube1", "DP0-whole", "P1-whole"), ("octa", "octa", "DP0-segment", "DP0-whole"),
                     ("octa", "octa", "P1-segment-bd", "DP0-segment"), ("cube1", "octa", "DP0-segment", "P1-whole")]
    old_order = api.GLOBAL_PARAMETERS.quadrature.regular
    small = _grids(ctx, small=True)
    with fmmstub.scratch_cwd():
        try:
            for order in ([2, 3] if ctx.thorough else [2]):
                api.GLOBAL_PARAMETERS.quadrature.regular = order
                fmmstub.clear_caches()
                lp, w = rule(order)
                npts = lp.shape[1]
                for gS, gT, labS, labT in mv_cases:
                    gridS = _mkgrid(api, small[gS])
                    gridT = gridS if gT == gS else _mkgrid(api, small[gT], shift=(0.3, 0.2, 2.9), scale=0.8)
                    dom = dict(_space_configs(api, gridS, ctx, False, only=(labS,))).get(labS)
                    dual = dict(_space_configs(api, gridT, ctx, False, only=(labT,))).get(labT)
                    if dom is None or dual is None:
                        continue
                    x = np.array([ctx.rng.randrange(-8, 9) / 4 for _ in range(dom.global_dof_count)])
                    from bempp_cl.api.operators.boundary import laplace
                    try:
                        opf = laplace.single_layer(dom, dual, dual, assembler="fmm")
                        sing = opf.descriptor.singular_part.weak_form().to_sparse()
                        yf = opf.weak_form() @ x - sing @ x
                        y_full = laplace.single_layer(dom, dual, dual, assembler="dense").weak_form() @ x
                        y_sing = sing @ x
                        yd = y_full - y_sing
                        # the regular part is a difference: its rounding error scales with the two terms, not with the
                        # result (which is exactly zero when every test/trial element pair is adjacent)
                        nat = max(float(np.linalg.norm(y_full)), float(np.linalg.norm(y_sing)))
                        st = "ok"
                    except ValueError:
                        st, yf, yd, nat = "value-error", None, None, 0.0
                    PS = _point_cloud(gridS, lp)
                    PT = _point_cloud(gridT, lp)
                    for g_, P_ in ((gridS, PS), (gridT, PT)):
                        real = g_.map_to_point_cloud(order)
                        res.case(None)
                        if real.shape != P_.shape or np.max(np.abs(real - P_)) > 1e-14 * (1 + np.max(np.abs(P_))):
                            res.disagree("point cloud is not in element-major order npts*e+q", order=order,
                                         elements=int(g_.number_of_elements), impl_first=real[:4].tolist(),
                                         model_first=P_[:4].tolist())
                    diff = PT[:, None, :] - PS[None, :, :]
                    r = np.sqrt(np.sum(diff * diff, axis=2))
                    K = np.where(r == 0, 0.0, 1.0 / (4 * np.pi * np.where(r == 0, 1.0, r)))
                    same = gridT is gridS
                    nb = gridT.element_neighbors
                    if same:
                        indptr = [int(v) for v in nb.indexptr]
                        indices = [int(v) for v in nb.indices]
                        El = gridT.elements
                        adj = [[int(len(set(El[:, a].tolist()) & set(El[:, b].tolist())) > 0)
                                for b in range(gridS.number_of_elements)] for a in range(gridT.number_of_elements)]
                    else:
                        indptr = [0] * (gridT.number_of_elements + 1)
                        indices = []
                        adj = [[0] * gridS.number_of_elements for _ in range(gridT.number_of_elements)]
                    blkT, _ = _space_block(dual, lp)
                    blkS, _ = _space_block(dom, lp)
                    counts["mv_cases"] += 1

                    def h4(ans, st=st, yf=yf, yd=yd, dual=dual, dom=dom, case=(gS, gT, labS, labT, order), nat=nat):
                        t = ans.split()
                        if t[0] != "ok":
                            res.disagree("matvec model status", case=case, model=ans[:40])
                            return
                        nd = dual.grid_dof_count
                        mf = np.array([float(F(v)) for v in t[1:1 + nd]])
                        md = np.array([float(F(v)) for v in t[1 + nd:1 + 2 * nd]])
                        if np.max(np.abs(mf - md)) > 1e-13 * max(1e-300, np.max(np.abs(md))):
                            res.disagree("model fmm matvec differs from model dense matvec (theorem hypothesis "
                                         "near_field_is_adjacent_pairs violated by the real neighbour data?)", case=case)
                        if st != "ok":
                            # the implementation raises on this case; the model variant must raise in (a) as well
                            if MODEL_VARIANT == "patched" or (_is_prefix(dom) and _is_prefix(dual)):
                                res.disagree("FMM matvec raises", case=case, impl=st)
                            return
                        sc = max(1e-300, float(np.linalg.norm(md)), nat)
                        e1 = float(np.linalg.norm(yf - mf)) / sc
                        e2 = float(np.linalg.norm(yd - md)) / sc
                        worst["mv_fmm"] = max(worst["mv_fmm"], e1)
                        worst["mv_dense"] = max(worst["mv_dense"], e2)
                        if e1 > 1e-12 or e2 > 1e-12:
                            res.disagree("scalar matvec", case=case, fmm_rel_error=e1, dense_regular_rel_error=e2)
                    if dual.requires_dof_transformation or dom.requires_dof_transformation:
                        continue
                    add(" ".join(["fmmmv", str(npts)] + blkT + blkS + [_rat(v) for v in w]
                                 + [str(dual.grid_dof_count), str(dom.grid_dof_count)] + [_rat(v) for v in x]
                                 + [str(v) for v in indptr] + [str(len(indices))] + [str(v) for v in indices]
                                 + [str(v) for row in adj for v in row] + [_rat(v) for v in K.ravel()]), h4)
                    res.case(("mv", gS, gT, labS, labT, order), nontrivial=(not same) or not _is_prefix(dom)
                             or not _is_prefix(dual) or labS.startswith("P1") or labT.startswith("P1"),
                             sample=dict(kind="matvec", source_grid=gS, target_grid=gT, domain=labS, dual=labT,
                                         order=order, impl_status=st))
        finally:
            api.GLOBAL_PARAMETERS.quadrature.regular = old_order
            fmmstub.clear_caches()
    ctx.log(f"correspondence (c) matvec prepared: {counts['mv_cases']} cases; running the driver on {len(reqs)} requests")
    answers = run_driver(reqs)
    for a, h in zip(answers, handlers):
        h(a)
    ctx.log("correspondence driver answers compared")
    res.count("driver_requests", len(reqs))
    for k, v in counts.items():
        res.stats["corr_" + k] = v
    for k, v in worst.items():
        res.stats["corr_worst_rel_" + k] = v
    res.stats["model_variant"] = MODEL_VARIANT
    return res


# ------------------------------------------------------------------------------------------------
# oracle


def _families(api):
    """name -> dict(mk, dom, dual, cplx, heavy).  mk(dom, ran, dual, assembler) -> boundary operator."""
    from bempp_cl.api.operators.boundary import laplace, helmholtz, modified_helmholtz, maxwell
    kr, kc, om = 1.3, 1.1 + 0.45j, 0.9

    def W(f, *a):
        return lambda d, r, t, assembler: f(d, r, t, *a, assembler=assembler)
    fam = {
        "lap_sl": dict(mk=W(laplace.single_layer), dom="P1", dual="P1", cplx=False),
        "lap_sl_dp0": dict(mk=W(laplace.single_layer), dom="DP0", dual="DP0", cplx=False),
        "lap_dl": dict(mk=W(laplace.double_layer), dom="P1", dual="DP0", cplx=False),
        "lap_adl": dict(mk=W(laplace.adjoint_double_layer), dom="DP0", dual="P1", cplx=False),
        "lap_hyp": dict(mk=W(laplace.hypersingular), dom="P1", dual="P1", cplx=False, heavy=True),
        "helm_sl": dict(mk=W(helmholtz.single_layer, kr), dom="P1", dual="P1", cplx=True),
        "helm_sl_ck": dict(mk=W(helmholtz.single_layer, kc), dom="DP0", dual="P1", cplx=True),
        "helm_dl": dict(mk=W(helmholtz.double_layer, kr), dom="P1", dual="DP0", cplx=True),
        "helm_dl_ck": dict(mk=W(helmholtz.double_layer, kc), dom="P1", dual="P1", cplx=True),
        "helm_adl": dict(mk=W(helmholtz.adjoint_double_layer, kc), dom="DP0", dual="P1", cplx=True),
        "helm_hyp": dict(mk=W(helmholtz.hypersingular, kr), dom="P1", dual="P1", cplx=True, heavy=True),
        "helm_hyp_ck": dict(mk=W(helmholtz.hypersingular, kc), dom="P1", dual="P1", cplx=True, heavy=True),
        "mh_sl": dict(mk=W(modified_helmholtz.single_layer, om), dom="DP0", dual="DP0", cplx=False),
        "mh_dl": dict(mk=W(modified_helmholtz.double_layer, om), dom="P1", dual="DP0", cplx=False),
        "mh_adl": dict(mk=W(modified_helmholtz.adjoint_double_layer, om), dom="DP0", dual="P1", cplx=False),
        "mh_hyp": dict(mk=W(modified_helmholtz.hypersingular, om), dom="P1", dual="P1", cplx=False, heavy=True),
        "max_E": dict(mk=W(maxwell.electric_field, kr), dom="RWG", dual="SNC", cplx=True, heavy=True),
        "max_M": dict(mk=W(maxwell.magnetic_field, kr), dom="RWG", dual="SNC", cplx=True, heavy=True),
        "max_E_ck": dict(mk=W(maxwell.electric_field, kc), dom="RWG", dual="SNC", cplx=True, heavy=True),
        "max_M_ck": dict(mk=W(maxwell.magnetic_field, kc), dom="RWG", dual="SNC", cplx=True, heavy=True),
    }
    return fam


def _potentials(api):
    from bempp_cl.api.operators import potential as P
    kr, kc, om = 1.3, 1.1 + 0.45j, 0.9

    def W(f, *a):
        return lambda s, pts, assembler: f(s, pts, *a, assembler=assembler)
    return {
        "pot_lap_sl": dict(mk=W(P.laplace.single_layer), sp="P1"),
        "pot_lap_dl": dict(mk=W(P.laplace.double_layer), sp="P1"),
        "pot_helm_sl": dict(mk=W(P.helmholtz.single_layer, kr), sp="DP0"),
        "pot_helm_dl": dict(mk=W(P.helmholtz.double_layer, kr), sp="P1"),
        "pot_helm_sl_ck": dict(mk=W(P.helmholtz.single_layer, kc), sp="P1"),
        "pot_helm_dl_ck": dict(mk=W(P.helmholtz.double_layer, kc), sp="P1"),
        "pot_mh_sl": dict(mk=W(P.modified_helmholtz.single_layer, om), sp="DP0"),
        "pot_mh_dl": dict(mk=W(P.modified_helmholtz.double_layer, om), sp="P1"),
        "pot_max_E": dict(mk=W(P.maxwell.electric_field, kr), sp="RWG"),
        "pot_max_M": dict(mk=W(P.maxwell.magnetic_field, kr), sp="RWG"),
        "pot_max_E_ck": dict(mk=W(P.maxwell.electric_field, kc), sp="RWG"),
        "pot_max_M_ck": dict(mk=W(P.maxwell.magnetic_field, kc), sp="RWG"),
    }


def _mkspace(api, grid, kind, variant):
    """variant: whole | segment | bary.  Returns None when the variant does not exist for the kind."""
    segs = sorted(set(int(d) for d in grid.domain_indices))
    seg = [segs[-1]]
    base = {"P1": ("P", 1), "DP0": ("DP", 0), "DP1": ("DP", 1), "RWG": ("RWG", 0), "SNC": ("SNC", 0)}[kind]
    if variant == "whole":
        # whole-grid scalar spaces carry PARTIALLY swapped normals whenever the grid has two domain indices (dense and FMM
        # get the very same space): mixed normal multipliers cost nothing and exercise the normal arrays of the FMM
        # evaluators (seeded change C17-c laid the multipliers out point-major next to element-major normals); spaces
        # with all multipliers +1 remain in the segment / barycentric variants
        if len(segs) > 1 and kind in ("P1", "DP0", "DP1"):
            return api.function_space(grid, *base, swapped_normals=[segs[0]])
        return api.function_space(grid, *base)
    if variant == "segment":
        kw = dict(segments=seg)
        if kind in ("P1", "RWG", "SNC"):
            kw["include_boundary_dofs"] = True
        return api.function_space(grid, *base, **kw)
    if variant == "bary":
        # the dual / barycentric partner of the kind
        if kind == "DP0":
            return api.function_space(grid, "DUAL", 0)
        if kind == "P1":
            return api.function_space(grid, "DUAL", 1)
        if kind == "RWG":
            return api.function_space(grid, "BC", 0)
        if kind == "SNC":
            return api.function_space(grid, "RBC", 0)
    return None


def _base_space(sp):
    """The space `sp` without its dof transformation (same grid, dof maps, multipliers, evaluators): the dense
    assembler rejects spaces with a dof transformation, so the dense counterpart of an operator on barycentric /
    dual spaces is  D_test^T . dense(base spaces) . D_domain  (that is what the dof transformation means)."""
    from bempp_cl.api.space.space import SpaceBuilder, invert_local2global
    b = (SpaceBuilder(sp.grid).set_codomain_dimension(sp.codomain_dimension).set_support(sp.support)
         .set_normal_multipliers(sp.normal_multipliers).set_order(sp.order).set_shapeset(sp.shapeset.identifier)
         .set_identifier(sp.identifier).set_local2global(sp.local2global)
         .set_global2local(invert_local2global(sp.local2global, sp.local_multipliers))
         .set_local_multipliers(sp.local_multipliers).set_numba_evaluator(sp.numba_evaluate)
         .set_numba_surface_gradient(sp.numba_surface_gradient if sp.has_surface_gradient else None)
         .set_numba_surface_curl(sp.numba_surface_curl if sp.has_surface_curl else None)
         .set_is_localised(False))
    return b.build()


def _dense_reference(mk, dom, dual):
    """dense weak form as a matrix; for spaces with a dof transformation through the base spaces"""
    import numpy as np
    from bempp_cl.api.space.space import return_compatible_representation
    if not (dom.requires_dof_transformation or dual.requires_dof_transformation or dom.is_barycentric
            or dual.is_barycentric):
        return mk(dom, dual, dual, "dense").weak_form(), "direct"
    d2, t2 = return_compatible_representation(dom, dual)
    A = mk(_base_space(d2), _base_space(t2), _base_space(t2), "dense").weak_form().to_dense()
    Dd = d2.dof_transformation.toarray()
    Dt = t2.dof_transformation.toarray()
    return Dt.T @ A @ Dd, "base-spaces"


def _vec(np, rng, n, cplx):
    x = np.array([rng.uniform(-1, 1) for _ in range(n)])
    if cplx:
        x = x + 1j * np.array([rng.uniform(-1, 1) for _ in range(n)])
    return x


def oracle(ctx, deep=False, only=None):
    import numpy as np
    res = Result()
    api = _api()
    from vlib import fmmstub
    deep = deep or ctx.thorough
    fam = _families(api)
    pots = _potentials(api)
    light = ["lap_sl_dp0", "lap_dl", "lap_adl", "helm_sl_ck", "helm_dl", "mh_sl", "helm_sl", "mh_dl"]
    heavy = ["lap_hyp", "max_E", "max_M_ck", "helm_hyp_ck"]
    if deep:
        fsel = sorted(fam)
        psel = sorted(pots)
    else:
        # quick: Laplace single layer (P1/P1: whole grid, segment, two grids) always; by seed one more family
        # (every third seed a heavy one: hypersingular / Maxwell) and one more potential
        fsel = ["lap_sl", light[ctx.seed % len(light)]]
        if ctx.seed % 3 == 2:
            fsel[1] = heavy[(ctx.seed // 3) % len(heavy)]
        psel = ["pot_lap_sl"]
        if ctx.seed % 3 != 2:
            psel.append(["pot_lap_dl", "pot_helm_sl_ck", "pot_mh_sl", "pot_helm_dl"][ctx.seed % 4])
    if only:
        fsel = [f for f in fsel if f in only] or fsel
    grids = _grids(ctx, small=False)
    margins = {"worst_rel_diff": 0.0, "worst_rel_diff_potential": 0.0}
    stats = {"cases": 0, "segment_cases": 0, "segment_failures": 0, "bary_cases": 0, "two_grid_cases": 0,
             "potential_cases": 0, "skipped_unsupported": 0, "complex_vectors": 0}
    seg_fail = []

    def record_failure(where, family, variant, space_is_segment, what, **detail):
        if space_is_segment:
            stats["segment_failures"] += 1
            seg_fail.append(dict(where=where, family=family, **detail))
            if len(seg_fail) == 1:
                res.counterexample(FINDING_KEY, "FMM operators on segment spaces (support not the leading elements) raise "
                                   "or are silently wrong: " + what, family=family, variant=variant, **detail)
        else:
            res.counterexample(f"fmm-dense-mismatch-{family}-{variant}", what, family=family, variant=variant, **detail)

    def compare(family, f, gridD, gridT, variant, gtag):
        """one operator on one (domain grid, test grid, space variant) configuration"""
        try:
            dom = _mkspace(api, gridD, f["dom"], "whole" if variant == "bary-test" else variant.split("-")[0])
            tvar = {"bary-test": "bary", "segment-domain": "whole"}.get(variant, variant.split("-")[0])
            dual = _mkspace(api, gridT, f["dual"], tvar)
        except Exception as e:  # noqa
            stats["skipped_unsupported"] += 1
            res.notes.append(f"space construction failed for {family}/{variant}: {type(e).__name__}: {str(e)[:100]}")
            return
        if dom is None or dual is None or dom.number_of_support_elements == 0 or dual.number_of_support_elements == 0:
            stats["skipped_unsupported"] += 1
            return
        is_seg = not (_is_prefix(dom) and _is_prefix(dual))
        is_bary = bool(dom.is_barycentric or dual.is_barycentric)
        try:
            A, how = _dense_reference(f["mk"], dom, dual)
        except Exception as e:  # noqa
            # the dense operator itself is not available for this combination: nothing to compare with
            stats["skipped_unsupported"] += 1
            res.notes.append(f"dense {family}/{variant} not available: {type(e).__name__}: {str(e)[:100]}")
            return
        stats["dense_via_base_spaces"] = stats.get("dense_via_base_spaces", 0) + int(how != "direct")
        stats["cases"] += 1
        stats["segment_cases"] += int(is_seg)
        stats["bary_cases"] += int(is_bary)
        stats["two_grid_cases"] += int(gridD is not gridT)
        key = ("op", family, gtag, variant)
        res.case(key, nontrivial=is_seg or is_bary or gridD is not gridT or family != "lap_sl_dp0",
                 sample=dict(kind="operator", family=family, grids=gtag, variant=variant,
                             domain_support=int(dom.number_of_support_elements), elements=int(gridD.number_of_elements)))
        try:
            B = f["mk"](dom, dual, dual, "fmm").weak_form()
        except Exception as e:  # noqa
            record_failure("assemble", family, variant, is_seg, f"{family} ({variant}, {gtag}) with assembler='fmm' raises "
                           f"{type(e).__name__}: {str(e)[:160]} while assembler='dense' works", grids=gtag,
                           support=[int(v) for v in dom.support_elements][:16], error=str(e)[:200])
            return
        for cplx in ((False, True) if (deep or f["cplx"]) else (False,)):
            x = _vec(np, ctx.rng, dom.global_dof_count, cplx)
            stats["complex_vectors"] += int(cplx)
            try:
                a = A @ x
                b = B @ x
            except Exception as e:  # noqa
                record_failure("matvec", family, variant, is_seg, f"{family} ({variant}, {gtag}) FMM matvec raises "
                               f"{type(e).__name__}: {str(e)[:160]}", grids=gtag, error=str(e)[:200])
                return
            na = float(np.linalg.norm(a))
            rel = float(np.linalg.norm(a - b)) / na if na > 0 else float(np.linalg.norm(b))
            if not (rel <= TOL):
                record_failure("value", family, variant, is_seg, f"{family} ({variant}, {gtag}): ||fmm x - dense x|| = "
                               f"{rel:.3e} ||dense x|| (complex x: {cplx})", grids=gtag, rel_diff=rel,
                               support=[int(v) for v in dom.support_elements][:16])
                return
            margins["worst_rel_diff"] = max(margins["worst_rel_diff"], rel)

    def compare_potential(name, p, grid, variant, gtag):
        try:
            sp = _mkspace(api, grid, p["sp"], variant)
        except Exception:  # noqa
            stats["skipped_unsupported"] += 1
            return
        if sp is None or sp.number_of_support_elements == 0:
            stats["skipped_unsupported"] += 1
            return
        is_seg = not _is_prefix(sp)
        c = grid.vertices.mean(axis=1)
        pts = np.array([[c[0] + 2.5, c[1] + 0.3, c[2] - 0.2], [c[0] - 0.4, c[1] + 3.1, c[2] + 0.6],
                        [c[0] + 0.1, c[1] - 0.2, c[2] - 2.2], [c[0] + 0.05, c[1] + 0.02, c[2] + 0.01]]).T
        x = _vec(np, ctx.rng, sp.global_dof_count, True)
        fun = api.GridFunction(sp, coefficients=x)
        try:
            a = p["mk"](sp, pts, "dense").evaluate(fun)
        except Exception as e:  # noqa
            stats["skipped_unsupported"] += 1
            res.notes.append(f"dense {name}/{variant} not available: {type(e).__name__}: {str(e)[:100]}")
            return
        stats["potential_cases"] += 1
        stats["segment_cases"] += int(is_seg)
        res.case(("pot", name, gtag, variant), nontrivial=True)
        try:
            b = p["mk"](sp, pts, "fmm").evaluate(fun)
        except Exception as e:  # noqa
            record_failure("potential", name, variant, is_seg, f"{name} ({variant}, {gtag}) with assembler='fmm' raises "
                           f"{type(e).__name__}: {str(e)[:160]}", grids=gtag, error=str(e)[:200])
            return
        na = float(np.linalg.norm(a))
        rel = float(np.linalg.norm(a - b)) / na if (a.shape == b.shape and na > 0) else 1.0
        if not (rel <= TOL):
            record_failure("potential-value", name, variant, is_seg, f"{name} ({variant}, {gtag}): ||fmm - dense|| = "
                           f"{rel:.3e} ||dense||", grids=gtag, rel_diff=rel)
            return
        margins["worst_rel_diff_potential"] = max(margins["worst_rel_diff_potential"], rel)

    import time as _time
    skipped_for_time = []

    def budget_ok(what, limit=QUICK_BUDGET_S):
        # quick tier only: optional items are started only while the run is within its time budget
        if deep or _time.time() - ctx.t0 <= limit:
            return True
        skipped_for_time.append(what)
        return False

    with fmmstub.scratch_cwd():
        fmmstub.clear_caches()
        gA = _mkgrid(api, grids["cube1"] if not deep else grids["cube2"])
        gB = _mkgrid(api, grids["octa"], shift=(0.4, 0.3, 2.6), scale=0.7)
        gC = _mkgrid(api, grids["screen"], rng=ctx.rng)
        def run_family(family):
            f = fam[family]
            ctx.log(f"oracle: family {family}")
            compare(family, f, gA, gA, "whole", "same")
            compare(family, f, gA, gA, "segment", "same")
            if not deep and family != "lap_sl":
                # test space on the whole grid, trial space on a segment: the maps of the two spaces differ (seed C17-b
                # used the trial space's map for testing, invisible while both spaces coincide)
                compare(family, f, gA, gA, "segment-domain", "same")
            if deep or family == "lap_sl":
                compare(family, f, gA, gB, "whole", "two-grids")
            if deep:
                compare(family, f, gA, gA, "segment-domain", "same")
                compare(family, f, gB, gA, "segment", "two-grids")
                compare(family, f, gC, gC, "whole", "open-screen")
                compare(family, f, gC, gC, "segment", "open-screen")
            if deep or (family in ("lap_sl_dp0", "mh_sl", "helm_sl_ck", "lap_dl", "helm_dl", "mh_dl")
                        and budget_ok("dual test space for " + family)):
                # dual (barycentric) test space: DUAL0 for DP0-type, DUAL1 for P1-type test spaces
                compare(family, f, gA if not deep else gB, gA if not deep else gB, "bary-test", "same")
            if deep:
                compare(family, f, gB, gB, "bary", "same")

        def run_potential(name):
            p = pots[name]
            ctx.log(f"oracle: potential {name}")
            compare_potential(name, p, gA, "whole", "same")
            compare_potential(name, p, gA, "segment", "same")
            if deep:
                compare_potential(name, p, gC, "segment", "open-screen")
                compare_potential(name, p, gB, "bary", "same")

        # 1. always: Laplace single layer (whole grid, segment, two grids), its sparse near-field configuration,
        #    the single-layer potential
        first = "lap_sl" if "lap_sl" in fsel else fsel[0]
        run_family(first)
        # configurations of the near field / evaluator (the FMM interface cache does not key on them: clear it)
        configs = [("near_field_representation", "sparse")]
        if deep:
            configs.append(("dense_evaluation", True))
        for attr, val in configs:
            old_val = getattr(api.GLOBAL_PARAMETERS.fmm, attr)
            try:
                setattr(api.GLOBAL_PARAMETERS.fmm, attr, val)
                fmmstub.clear_caches()
                for family in (["lap_sl"] + (["helm_dl_ck", "lap_adl"] if deep else [])):
                    compare(family, fam[family], gA, gA, "whole", f"same/{attr}={val}")
                    stats["config_cases"] = stats.get("config_cases", 0) + 1
            finally:
                setattr(api.GLOBAL_PARAMETERS.fmm, attr, old_val)
                fmmstub.clear_caches()
        run_potential(psel[0])
        ctx.log("oracle: neighbour lists, reference vectors")
        # near-field neighbour lists vs vertex adjacency on the oracle grids (the hypothesis of the theorem)
        for g in (gA, gB, gC):
            El = g.elements
            nb = g.element_neighbors
            for a in range(g.number_of_elements):
                lst = sorted(int(v) for v in nb.indices[nb.indexptr[a]:nb.indexptr[a + 1]])
                ref = [b for b in range(g.number_of_elements) if set(El[:, a].tolist()) & set(El[:, b].tolist())]
                res.case(None)
                if lst != ref:
                    res.counterexample("near-field-neighbours-not-adjacent-pairs", f"element_neighbors of element {a} is "
                                       f"{lst}, elements sharing a vertex are {ref}", element=a)
                    break
        if budget_ok("recorded reference vector fmm_laplace_single"):
            _reference_vectors(ctx, api, res, deep, stats)
        else:
            res.stats["reference_vectors"] = "skipped in this quick run (time budget); run by the thorough tier"
        # 2. the other families / potentials (quick tier: one by seed, only while within the time budget)
        for family in fsel:
            if family != first and budget_ok("family " + family):
                run_family(family)
        for name in psel[1:]:
            if budget_ok("potential " + name):
                run_potential(name)
        # 3. quick tier: one Maxwell operator per run (E / M alternating with the seed, complex k) with DIFFERENT test and
        #    trial supports; the evaluators of the gradient-based and Maxwell operators are Python glue without a theorem
        if not deep:
            for mx in (("max_M_ck", "max_E_ck") if ctx.seed % 2 == 1 else ("max_E_ck", "max_M_ck")):
                if mx not in fsel and budget_ok("family " + mx, limit=QUICK_BUDGET_S + 120):
                    ctx.log(f"oracle: family {mx} (test whole grid / trial segment)")
                    compare(mx, fam[mx], gA, gA, "segment-domain", "same")
        fmmstub.clear_caches()
    res.stats["oracle_skipped_for_time_budget"] = skipped_for_time
    res.stats.update({"oracle_" + k: v for k, v in stats.items()})
    res.stats.update({"oracle_" + k: v for k, v in margins.items()})
    res.stats["oracle_tolerance"] = TOL
    _LAST_ORACLE["new_counterexamples"] = [c["key"] for c in res.counterexamples if c["key"] != FINDING_KEY]
    res.stats["oracle_families"] = fsel
    res.stats["oracle_potentials"] = psel
    if seg_fail:
        res.stats["oracle_segment_failure_samples"] = seg_fail[:6]
    return res


def _reference_vectors(ctx, api, res, deep, stats):
    """Recorded reference vectors of test/validation/fmm/test_fmm.py (grids fmm_grid*.msh, order 4, rtol 2e-3)."""
    import numpy as np
    from vlib import fmmstub
    data = os.path.join(REPO, "test", "data")
    done, missing, worst = [], [], 0.0

    def load(n):
        return np.load(os.path.join(data, n + ".npy"))
    try:
        grid = api.import_grid(os.path.join(data, "fmm_grid.msh"))
    except Exception as e:  # noqa
        res.stats["reference_vectors"] = f"not reproducible here: {type(e).__name__}: {str(e)[:120]}"
        return
    from bempp_cl.api.operators import boundary as Bd, potential as Pt
    space = api.function_space(grid, "P", 1)
    vec = load("fmm_p1_vec")
    pts = load("fmm_potential_points")
    jobs = [("fmm_laplace_single", lambda a: Bd.laplace.single_layer(space, space, space, assembler=a).weak_form() @ vec)]
    if deep:
        k = 1.5
        fun = api.GridFunction(space, coefficients=vec)
        jobs += [
            ("fmm_laplace_double", lambda a: Bd.laplace.double_layer(space, space, space, assembler=a).weak_form() @ vec),
            ("fmm_laplace_adjoint", lambda a: Bd.laplace.adjoint_double_layer(space, space, space, assembler=a).weak_form() @ vec),
            ("fmm_laplace_hyper", lambda a: Bd.laplace.hypersingular(space, space, space, assembler=a).weak_form() @ vec),
            ("fmm_laplace_potential_single", lambda a: Pt.laplace.single_layer(space, pts, assembler=a).evaluate(fun)),
            ("fmm_laplace_potential_double", lambda a: Pt.laplace.double_layer(space, pts, assembler=a).evaluate(fun)),
            ("fmm_helmholtz_single", lambda a: Bd.helmholtz.single_layer(space, space, space, k, assembler=a).weak_form() @ vec),
            ("fmm_helmholtz_double", lambda a: Bd.helmholtz.double_layer(space, space, space, k, assembler=a).weak_form() @ vec),
            ("fmm_helmholtz_adjoint", lambda a: Bd.helmholtz.adjoint_double_layer(space, space, space, k, assembler=a).weak_form() @ vec),
            ("fmm_helmholtz_hyper", lambda a: Bd.helmholtz.hypersingular(space, space, space, k, assembler=a).weak_form() @ vec),
            ("fmm_helmholtz_potential_single", lambda a: Pt.helmholtz.single_layer(space, pts, k, assembler=a).evaluate(fun)),
            ("fmm_helmholtz_potential_double", lambda a: Pt.helmholtz.double_layer(space, pts, k, assembler=a).evaluate(fun)),
            ("fmm_modified_helmholtz_single", lambda a: Bd.modified_helmholtz.single_layer(space, space, space, k, assembler=a).weak_form() @ vec),
            ("fmm_modified_helmholtz_double", lambda a: Bd.modified_helmholtz.double_layer(space, space, space, k, assembler=a).weak_form() @ vec),
            ("fmm_modified_helmholtz_adjoint", lambda a: Bd.modified_helmholtz.adjoint_double_layer(space, space, space, k, assembler=a).weak_form() @ vec),
            ("fmm_modified_helmholtz_hyper", lambda a: Bd.modified_helmholtz.hypersingular(space, space, space, k, assembler=a).weak_form() @ vec),
            ("fmm_modified_potential_helmholtz_single", lambda a: Pt.modified_helmholtz.single_layer(space, pts, k, assembler=a).evaluate(fun)),
            ("fmm_modified_potential_helmholtz_double", lambda a: Pt.modified_helmholtz.double_layer(space, pts, k, assembler=a).evaluate(fun)),
        ]
        rwg = api.function_space(grid, "RWG", 0)
        snc = api.function_space(grid, "SNC", 0)
        rvec = load("fmm_rwg_vec")
        rfun = api.GridFunction(rwg, coefficients=rvec)
        jobs += [
            ("fmm_maxwell_electric", lambda a: Bd.maxwell.electric_field(rwg, rwg, snc, k, assembler=a).weak_form() @ rvec),
            ("fmm_maxwell_magnetic", lambda a: Bd.maxwell.magnetic_field(rwg, rwg, snc, k, assembler=a).weak_form() @ rvec),
            ("fmm_maxwell_potential_electric", lambda a: Pt.maxwell.electric_field(rwg, pts, k, assembler=a).evaluate(rfun)),
            ("fmm_maxwell_potential_magnetic", lambda a: Pt.maxwell.magnetic_field(rwg, pts, k, assembler=a).evaluate(rfun)),
        ]
        try:
            g1 = api.import_grid(os.path.join(data, "fmm_grid1.msh"))
            g2 = api.import_grid(os.path.join(data, "fmm_grid2.msh"))
            s1 = api.function_space(g1, "P", 1)
            s2 = api.function_space(g2, "P", 1)
            v2 = load("fmm_two_mesh_vec")
            jobs += [
                ("fmm_two_mesh_laplace_single", lambda a: Bd.laplace.single_layer(s1, s2, s2, assembler=a).weak_form() @ v2),
                ("fmm_two_mesh_laplace_hyper", lambda a: Bd.laplace.hypersingular(s1, s2, s2, assembler=a).weak_form() @ v2),
            ]
        except Exception as e:  # noqa
            missing.append(f"two-mesh grids: {type(e).__name__}")
    for name, job in jobs:
        ctx.log(f"oracle: recorded reference vector {name}")
        try:
            ref = load(name)
        except Exception:  # noqa
            missing.append(name)
            continue
        try:
            got = job("fmm")
        except Exception as e:  # noqa
            res.counterexample(f"fmm-reference-raises-{name}", f"recorded FMM test {name}: assembler='fmm' raises "
                               f"{type(e).__name__}: {str(e)[:160]}")
            continue
        fmmstub.clear_caches()
        res.case(("reference", name), nontrivial=True)
        # np.testing.assert_allclose(dense_recorded, fmm, rtol=2e-3): |recorded - fmm| <= 2e-3 |fmm| elementwise
        got = np.asarray(got)
        if got.shape != ref.shape:
            res.counterexample(f"fmm-reference-shape-{name}", f"recorded vector {name} has shape {ref.shape}, FMM result "
                               f"{got.shape}")
            continue
        ratio = float(np.max(np.abs(ref - got) / np.maximum(np.abs(got), 1e-300)))
        worst = max(worst, ratio)
        done.append(name)
        if ratio > 2e-3:
            res.counterexample(f"fmm-reference-mismatch-{name}", f"recorded reference vector {name} is not reproduced "
                               f"within rtol 2e-3: max |recorded - fmm| / |fmm| = {ratio:.3e}", max_ratio=ratio)
    res.stats["reference_vectors_reproduced"] = done
    res.stats["reference_vectors_missing"] = missing
    res.stats["reference_vectors_worst_ratio_vs_rtol_2e-3"] = worst
    if not deep:
        res.stats["reference_vectors_note"] = ("quick tier reproduces fmm_laplace_single only; the thorough tier runs all 24 "
                                               "recorded vectors of test/validation/fmm/test_fmm.py (none needs gmsh: the "
                                               "grids are shipped as fmm_grid*.msh); the regular_sphere based FMM tests have no "
                                               "recorded data and are covered by the generic oracle")


_LAST_ORACLE = {"new_counterexamples": None}


def search(ctx, broken):
    # the quick oracle already produced a failing input beyond the recorded segment finding: nothing to search for
    if _LAST_ORACLE["new_counterexamples"]:
        r = Result()
        r.notes.append("search skipped: the oracle of this run already found a failing input")
        return r
    return oracle(ctx, deep=True)
