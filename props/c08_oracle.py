"""C08 oracle -- potentials and far fields: closed-form kernel sums, PDEs, far-field limit and translation law.

All checks run on the REAL code (`bempp_cl.api`).  Only `local2global`, `local_multipliers`, `support_elements`,
`normal_multipliers` are read from a space; basis functions, quadrature nodes, normals, integration elements and the
kernels are re-computed here from closed formulas.

(a) sums      u(x) = sum_q K(x, y_q) * w_q * ie_q * f(y_q)     for every potential / far-field operator, 1e-12 relative
              to sum_q |K w ie f| (the natural rounding scale), f = sum_j c_j phi_j, real and complex c, real and
              complex k, closed / open / segment spaces.  Formulas (r = |x-y|, d = x-y, G = e^{ikr}/(4 pi r)):
                 Laplace   SL 1/(4 pi r)              DL  d.n_y /(4 pi r^3)
                 Helmholtz SL G                       DL  G (1 - ikr) d.n_y / r^2
                 mod.Helm. SL e^{-wr}/(4 pi r)        DL  e^{-wr} (1 + wr) d.n_y /(4 pi r^3)
                 far field SL e^{-ik xh.y}/(4 pi)     DL  -ik (xh.n_y) e^{-ik xh.y}/(4 pi)
                 Maxwell   E = ik G f - (1/ik) grad_x G div f,   H = grad_x G x f,   grad_x G = G (ikr-1) d / r^2
                 far field E = (ik f - xh div f) e^{-ik xh.y}/(4 pi),   H = ik xh x f e^{-ik xh.y}/(4 pi)
(b) PDEs      by central differences with two step sizes h, h/2 at points off the surface (criteria below),
(c) far field = lim r e^{-ikr} u(r xh)  (three radii, polynomial extrapolation in 1/r) and
              F_{Gamma + t}(xh) = e^{-ik xh.t} F_Gamma(xh).

FD criteria (R(h) residual of the difference scheme, T = sum of the absolute values of the terms of the scheme):
   R(h) = delta + a h^2 + b h^4 + ...  with delta = 0 for a solution of the PDE.  With h2 = h/2 and the Richardson
   value R_ex = (4 R(h2) - R(h))/3 = delta + O(h^4):
        (1) |R(h)|  <= 0.05 T                    (truncation is small against the terms: h = 0.02 dist(x, Gamma))
        (2) |R(h2)| <= 0.35 |R(h)| + FLOOR T     (second order: the exact ratio is 0.25; observed 0.2501..0.2754)
        (3) |R_ex|  <= 0.05 |R(h)| + FLOOR T     (no h-independent defect)
   FLOOR = 3e-6 covers the O(h^4) remainder ((h/dist)^4 ~ 1.6e-7; observed <= 6.1e-7 T over 2300 thorough cases) and
   rounding (~1e-12); typical |R(h)| is 7e-4 T, so a defect delta > 4e-5 T is reported (checked by perturbing k^2:
   a relative error 1e-4 in k^2 is flagged, 1e-5 is not).  `curl E = ik H`, `div H = 0` and the scalar PDEs hold for the quadrature sums themselves (the kernel
   solves the PDE in x for every y_q); `curl H = -ik E` and `div E = 0` use an integration by parts on Gamma and
   hold for the sums only up to the quadrature error: they are checked on a quadrature ladder (orders 3, 6, 10) with
   FLOOR_Q at the top order and the requirement that the defect does not grow along the ladder.

Known suspected finding (DESIGN 3.7 k): the far-field kernels use only Re k.  For complex k the far-field operator
is compared with the closed form / limit / translation law for the *complex* k; a disagreement is reported under the
key `farfield-ignores-imag-k` -- only when the observed value equals (to rounding) the closed form with Im k
dropped in the kernel, i.e. when the ignored Im k is the only cause; any other far-field discrepancy (real k, or
complex k with a value that is not the Im-k-dropped formula) gets its own key `farfield-{sum,limit,translation}-...`.
"""
import math
import os
import sys
import time

import numpy as np

from vlib import meshgen as mg
from vlib.common import Ctx, Result

TOL_SUM = 1e-12
TOL_LIMIT = 1e-6
TOL_TRANS = 1e-12
FD_REL_H = 0.02
FD_C1, FD_C2, FD_C3, FD_FLOOR = 0.05, 0.35, 0.05, 3e-6
FLOOR_Q = 2e-5  # calibrated: observed quadrature defects of curl H + ik E and div E: <= 3.3e-2 T at order 3, <= 7e-6 T at 6, <= 1e-7 T at 10
INV4PI = 1.0 / (4.0 * math.pi)


# ----------------------------------------------------------------------------------------------------------------
class RefSpace:
    """Closed-form basis of a bempp space on flat triangles (shape functions written here, dof maps from the space)."""

    def __init__(self, space):
        g = space.grid
        self.ident = space.identifier
        self.V = np.array(g.vertices, float)
        self.E = np.array(g.elements, np.int64)
        self.l2g = np.array(space.local2global, np.int64)
        self.mult = np.array(space.local_multipliers, float)
        self.support = [int(e) for e in space.support_elements]
        self.nm = np.array(space.normal_multipliers, float)
        self.ndof = int(space.global_dof_count)
        P0, P1, P2 = (self.V[:, self.E[i]] for i in range(3))
        cr = np.cross((P1 - P0).T, (P2 - P0).T)
        self.ie = np.linalg.norm(cr, axis=1)
        self.normals = cr / self.ie[:, None]
        self.codim = 3 if self.ident in ("rwg0", "snc0") else 1
        self.nshape = 1 if self.ident == "p0_discontinuous" else 3

    def points(self, e, uv):
        p0, p1, p2 = (self.V[:, self.E[i, e]] for i in range(3))
        return p0[:, None] * (1 - uv[0] - uv[1]) + p1[:, None] * uv[0] + p2[:, None] * uv[1]

    def _elen(self, e):
        p = [self.V[:, self.E[i, e]] for i in range(3)]
        return p, (np.linalg.norm(p[0] - p[1]), np.linalg.norm(p[2] - p[0]), np.linalg.norm(p[1] - p[2]))

    def values(self, e, uv):
        n = uv.shape[1]
        if self.ident == "p0_discontinuous":
            out = np.ones((1, 1, n))
        elif self.ident in ("p1_discontinuous", "p1_continuous"):
            out = np.array([1 - uv[0] - uv[1], uv[0], uv[1]])[None]
        elif self.ident in ("rwg0", "snc0"):
            p, elen = self._elen(e)
            x = self.points(e, uv)
            opp = (2, 1, 0)
            out = np.empty((3, 3, n))
            for i in range(3):
                out[:, i, :] = elen[i] / self.ie[e] * (x - p[opp[i]][:, None])
            if self.ident == "snc0":
                out = np.cross((self.normals[e] * self.nm[e])[:, None, None], out, axis=0)
        else:
            raise ValueError(self.ident)
        return out * self.mult[e][None, :, None]

    def divergences(self, e):
        """Surface divergence of the three local RWG functions (constant on the element)."""
        _, elen = self._elen(e)
        return np.array([2.0 * elen[i] / self.ie[e] for i in range(3)]) * self.mult[e]

    def nodes(self, uv, w):
        """Quadrature nodes of the support, element-major: Y (3,Q), weights*ie (Q,), normals (3,Q)."""
        Y = np.hstack([self.points(e, uv) for e in self.support])
        W = np.hstack([w * self.ie[e] for e in self.support])
        N = np.hstack([np.repeat((self.normals[e] * self.nm[e])[:, None], len(w), axis=1) for e in self.support])
        return Y, W, N

    def density(self, c, uv):
        """f(y_q) (codim, Q) and, for RWG, div f (Q,) of f = sum_j c_j phi_j."""
        F, D = [], []
        for e in self.support:
            vals = self.values(e, uv)
            ce = c[self.l2g[e]]
            F.append(np.einsum("dip,i->dp", vals, ce))
            if self.ident == "rwg0":
                D.append(np.full(uv.shape[1], np.dot(self.divergences(e), ce)))
        return np.hstack(F), (np.hstack(D) if D else None)


# ----------------------------------------------------------------------------------------------------------------
# closed-form kernels.  X (3,N) evaluation points, Y (3,Q) nodes, NY (3,Q) normals at the nodes.
# ----------------------------------------------------------------------------------------------------------------
def _geom(X, Y):
    d = X[:, :, None] - Y[:, None, :]  # (3,N,Q)  x - y
    r = np.sqrt((d * d).sum(axis=0))
    return d, r


def scalar_kernel(fam, X, Y, NY, par):
    """(N,Q) matrix of kernel values."""
    if fam in ("ff-sl", "ff-dl"):
        k = par
        e = np.exp(-1j * k * (X.T @ Y)) * INV4PI
        return e if fam == "ff-sl" else -1j * k * (X.T @ NY) * e
    d, r = _geom(X, Y)
    dn = (d * NY[:, None, :]).sum(axis=0)
    if fam == "laplace-sl":
        return INV4PI / r
    if fam == "laplace-dl":
        return INV4PI * dn / r**3
    if fam == "helmholtz-sl":
        return np.exp(1j * par * r) * INV4PI / r
    if fam == "helmholtz-dl":
        return np.exp(1j * par * r) * INV4PI * (1 - 1j * par * r) * dn / r**3
    if fam == "modhelmholtz-sl":
        return np.exp(-par * r) * INV4PI / r
    if fam == "modhelmholtz-dl":
        return np.exp(-par * r) * INV4PI * (1 + par * r) * dn / r**3
    raise ValueError(fam)


def maxwell_terms(fam, X, Y, F, D, k):
    """(3,N,Q) array of the summands (without quadrature weights)."""
    if fam in ("maxwell-far-e", "maxwell-far-m"):
        g = np.exp(-1j * k * (X.T @ Y)) * INV4PI  # (N,Q)
        if fam == "maxwell-far-e":
            return 1j * k * g[None] * F[:, None, :] - X[:, :, None] * (g * D[None, :])[None]
        return 1j * k * g[None] * np.cross(X.T[:, None, :], F.T[None, :, :]).transpose(2, 0, 1)
    d, r = _geom(X, Y)
    G = np.exp(1j * k * r) * INV4PI / r
    gradG = G[None] * (1j * k * r - 1)[None] * d / (r * r)[None]
    if fam == "maxwell-e":
        return 1j * k * G[None] * F[:, None, :] - gradG * D[None, None, :] / (1j * k)
    if fam == "maxwell-m":
        Fb = np.broadcast_to(F[:, None, :], gradG.shape)
        return np.cross(gradG, Fb, axis=0)
    raise ValueError(fam)


def closed_form(fam, ref, c, uv, w, X, par):
    """value (kdim,N) and rounding scale (N,) of the closed-form sum."""
    Y, W, NY = ref.nodes(uv, w)
    F, D = ref.density(np.asarray(c), uv)
    if fam.startswith("maxwell"):
        t = maxwell_terms(fam, X, Y, F.astype(complex), None if D is None else D.astype(complex), par) * W[None, None, :]
        return t.sum(axis=2), np.sqrt((np.abs(t) ** 2).sum(axis=0)).sum(axis=1)
    K = scalar_kernel(fam, X, Y, NY, par)
    t = K * (W * F[0])[None, :]
    return t.sum(axis=1)[None, :], np.abs(t).sum(axis=1)


def closed_form_imag_k_dropped(fam, ref, c, uv, w, X, k):
    """The far-field sums as the code computes them for complex k (finding `farfield-ignores-imag-k`): Re k in the
    kernel (exponent, and the -ik factor of the double layer), the complex k only in the Maxwell prefactor ik."""
    if fam in ("ff-sl", "ff-dl"):
        return closed_form(fam, ref, c, uv, w, X, k.real)[0]
    Y, W, NY = ref.nodes(uv, w)
    F, D = ref.density(np.asarray(c), uv)
    t = maxwell_terms(fam, X, Y, F.astype(complex), D.astype(complex), k)
    ratio = np.exp(-1j * k.real * (X.T @ Y)) / np.exp(-1j * k * (X.T @ Y))
    return (t * ratio[None] * W[None, None, :]).sum(axis=2)


# ----------------------------------------------------------------------------------------------------------------
# inputs
# ----------------------------------------------------------------------------------------------------------------
def make_grids(api, rng, thorough):
    out = {}
    V, E = (mg.octahedron() if rng.random() < 0.5 else mg.cube(1, flip_diag=rng.random() < 0.5))
    V = mg.perturb(V - V.mean(axis=1)[:, None], 0.12, rng)
    V, _, _ = mg.rigid(V, rng)
    out["closed"] = api.Grid(V, E)
    V, E = mg.screen(3, 2, wobble=0.1, rng=rng)
    V, _, _ = mg.rigid(V * 1.3, rng)
    out["open"] = api.Grid(V, E)
    V, E = mg.cube(2)
    D = np.array([j // (E.shape[1] // 3) for j in range(E.shape[1])], dtype=np.uint32)
    V = mg.perturb(V * 1.2, 0.06, rng)
    V, _, _ = mg.rigid(V, rng)
    out["segment"] = api.Grid(V, E, D)
    if thorough:
        V, E = mg.lshape()
        V, _, _ = mg.rigid(mg.perturb(V * 0.8, 0.05, rng), rng)
        out["closed2"] = api.Grid(V, E)
    return out


def spaces_for(api, grids, shapeset, rng, thorough):
    """List of (label, space) for a shapeset on closed / open / segment grids."""
    kinds = {"p0": [("DP", 0)], "p1": [("DP", 1), ("P", 1)], "rwg": [("RWG", 0)]}[shapeset]
    out = []
    for gname, g in grids.items():
        for kind, deg in kinds:
            if gname == "segment":
                variants = [dict(segments=[1])]
                if kind in ("P", "RWG"):
                    variants.append(dict(segments=[1], include_boundary_dofs=True))
                if kind == "P" and thorough:
                    variants.append(dict(segments=[1, 2], include_boundary_dofs=True, truncate_at_segment_edge=False))
            else:
                variants = [dict()]
            for kw in variants:
                sp = api.function_space(g, kind, deg, scatter=False, **kw)
                if sp.global_dof_count == 0:
                    continue
                lab = f"{kind}{deg}".lower() + ("" if not kw else "-seg" + ("-bd" if kw.get("include_boundary_dofs") else "")
                                               + ("-notrunc" if kw.get("truncate_at_segment_edge") is False else ""))
                out.append((gname, lab, f"{kind}{deg}".lower(), sp, bool(kw.get("include_boundary_dofs"))))
    return out


def rand_coeffs(n, rng, complex_):
    c = np.array([rng.uniform(-1, 1) for _ in range(n)])
    if complex_:
        c = c + 1j * np.array([rng.uniform(-1, 1) for _ in range(n)])
    return c


def rand_dirs(n, rng):
    X = np.array([[rng.gauss(0, 1) for _ in range(n)] for _ in range(3)])
    return X / np.linalg.norm(X, axis=0)


def eval_points(ref, rng, n_near, n_far):
    """Points off the surface: a few close to it (0.05..0.3 element diameters off a random surface point) and a few far."""
    c = ref.V.mean(axis=1)
    rad = np.linalg.norm(ref.V - c[:, None], axis=0).max()
    pts = []
    for _ in range(n_near):
        e = rng.choice(ref.support)
        u = rng.uniform(0.1, 0.6)
        v = rng.uniform(0.1, 0.9 - u)
        y = ref.points(e, np.array([[u], [v]]))[:, 0]
        pts.append(y + ref.normals[e] * rng.choice([-1, 1]) * rng.uniform(0.05, 0.3) * math.sqrt(ref.ie[e]))
    for x in rand_dirs(n_far, rng).T:
        pts.append(c + x * rad * rng.uniform(1.3, 4.0))
    return np.array(pts).T


def dist_to_surface(ref, X):
    """Distance of the points X (3,N) to the triangles of the support (exact point-triangle distance)."""
    out = np.full(X.shape[1], np.inf)
    for e in ref.support:
        a, b, c = (ref.V[:, ref.E[i, e]] for i in range(3))
        for j in range(X.shape[1]):
            out[j] = min(out[j], _pt_tri(X[:, j], a, b, c))
    return out


def _pt_tri(p, a, b, c):
    ab, ac, ap = b - a, c - a, p - a
    d1, d2 = ab @ ap, ac @ ap
    if d1 <= 0 and d2 <= 0:
        return np.linalg.norm(ap)
    bp = p - b
    d3, d4 = ab @ bp, ac @ bp
    if d3 >= 0 and d4 <= d3:
        return np.linalg.norm(bp)
    vc = d1 * d4 - d3 * d2
    if vc <= 0 and d1 >= 0 and d3 <= 0:
        return np.linalg.norm(ap - ab * d1 / (d1 - d3))
    cp = p - c
    d5, d6 = ab @ cp, ac @ cp
    if d6 >= 0 and d5 <= d6:
        return np.linalg.norm(cp)
    vb = d5 * d2 - d1 * d6
    if vb <= 0 and d2 >= 0 and d6 <= 0:
        return np.linalg.norm(ap - ac * d2 / (d2 - d6))
    va = d3 * d6 - d5 * d4
    if va <= 0 and (d4 - d3) >= 0 and (d5 - d6) >= 0:
        t = (d4 - d3) / ((d4 - d3) + (d5 - d6))
        return np.linalg.norm(p - (b + t * (c - b)))
    n = np.cross(ab, ac)
    return abs(ap @ n) / np.linalg.norm(n)


def pde_points(ref, rng, n):
    """Points at distance >= 0.35 mesh radii from the surface (outside, and inside when the mesh is closed and fat)."""
    c = ref.V[:, np.unique(ref.E[:, ref.support])].mean(axis=1)
    rad = np.linalg.norm(ref.V - c[:, None], axis=0).max()
    pts = []
    tries = 0
    while len(pts) < n and tries < 200:
        tries += 1
        x = c + rand_dirs(1, rng)[:, 0] * rad * (rng.uniform(0.0, 0.3) if tries % 3 == 0 else rng.uniform(1.3, 3.0))
        if dist_to_surface(ref, x[:, None])[0] >= 0.3 * rad:
            pts.append(x)
    return np.array(pts).T


# ----------------------------------------------------------------------------------------------------------------
# finite differences
# ----------------------------------------------------------------------------------------------------------------
def stencil(X0, h):
    """Points  x, x +- h e_j, x +- (h/2) e_j  for every base point: (3, 13 n), ordered base-major."""
    cols = []
    for i in range(X0.shape[1]):
        x = X0[:, i]
        cols.append(x)
        for s in (h[i], h[i] / 2):
            for j in range(3):
                for sg in (1, -1):
                    y = x.copy()
                    y[j] += sg * s
                    cols.append(y)
    return np.array(cols).T


def _split(U, i):
    """values (kdim, 13) of base point i -> centre, plus/minus arrays [level][axis] of shape (kdim,)."""
    u = U[:, 13 * i:13 * (i + 1)]
    c = u[:, 0]
    lv = []
    for l in range(2):
        b = 1 + 6 * l
        lv.append([(u[:, b + 2 * j], u[:, b + 2 * j + 1]) for j in range(3)])
    return c, lv


def fd_laplace_residuals(U, i, h, lam):
    """R(h), R(h/2), T for  Delta u + lam u = 0  (scalar u)."""
    c, lv = _split(U, i)
    out = []
    for l, s in enumerate((h, h / 2)):
        terms = [(p[0] + m[0] - 2 * c[0]) / s**2 for p, m in lv[l]]
        out.append((sum(terms) + lam * c[0], sum(abs(t) for t in terms) + abs(lam * c[0])))
    return out[0][0], out[1][0], out[0][1]


def fd_grad(U, i, h):
    """central first derivatives J[level][a][b] = d_b F_a, and centre value."""
    c, lv = _split(U, i)
    J = []
    for l, s in enumerate((h, h / 2)):
        J.append(np.array([[(lv[l][b][0][a] - lv[l][b][1][a]) / (2 * s) for b in range(3)] for a in range(3)]))
    return c, J


def curl_of(J):
    return np.array([J[2][1] - J[1][2], J[0][2] - J[2][0], J[1][0] - J[0][1]])


def judge(R1v, R2v, T, floor):
    """R1v, R2v residual vectors (or scalars) at h and h/2.  Returns (ok, dict of normalised numbers)."""
    R1v, R2v = np.atleast_1d(R1v), np.atleast_1d(R2v)
    r1, r2 = float(np.linalg.norm(R1v)), float(np.linalg.norm(R2v))
    rex = float(np.linalg.norm((4 * R2v - R1v) / 3))
    T = float(T)
    if not T > 0 or not np.isfinite(r1 + r2 + rex):
        return False, dict(r1=r1, r2=r2, rex=rex, T=T)
    ok = (r1 <= FD_C1 * T) and (r2 <= FD_C2 * r1 + floor * T) and (rex <= FD_C3 * r1 + floor * T)
    return ok, dict(trunc=r1 / T, ratio=(r2 / r1 if r1 > 0 else 0.0), defect=rex / T)


# ----------------------------------------------------------------------------------------------------------------
# library access
# ----------------------------------------------------------------------------------------------------------------
def lib_ops(api):
    P, F = api.operators.potential, api.operators.far_field
    return {
        "laplace-sl": (P.laplace.single_layer, "none"),
        "laplace-dl": (P.laplace.double_layer, "none"),
        "helmholtz-sl": (P.helmholtz.single_layer, "k"),
        "helmholtz-dl": (P.helmholtz.double_layer, "k"),
        "modhelmholtz-sl": (P.modified_helmholtz.single_layer, "omega"),
        "modhelmholtz-dl": (P.modified_helmholtz.double_layer, "omega"),
        "ff-sl": (F.helmholtz.single_layer, "k"),
        "ff-dl": (F.helmholtz.double_layer, "k"),
        "maxwell-e": (P.maxwell.electric_field, "k"),
        "maxwell-m": (P.maxwell.magnetic_field, "k"),
        "maxwell-far-e": (F.maxwell.electric_field, "k"),
        "maxwell-far-m": (F.maxwell.magnetic_field, "k"),
    }


FAR_OF = {"helmholtz-sl": "ff-sl", "helmholtz-dl": "ff-dl", "maxwell-e": "maxwell-far-e", "maxwell-m": "maxwell-far-m"}
LAMBDA = {"laplace": lambda p: 0.0, "helmholtz": lambda p: p * p, "modhelmholtz": lambda p: -p * p}


class Runner:
    def __init__(self, ctx, api, res, deep):
        from bempp_cl.api.utils.parameters import DefaultParameters
        from bempp_cl.api.integration.triangle_gauss import rule

        self.ctx, self.api, self.res, self.rng = ctx, api, res, ctx.rng
        self.thorough = ctx.thorough or deep
        self.DP, self.rule = DefaultParameters, rule
        self.ops = lib_ops(api)
        self.worst = {}
        self.fd_stats = {}
        self.ff = dict(checked=0, disagree=0, examples=[])
        self.cex_count = {}

    # -- helpers
    def cex(self, key, what, **detail):
        """Record at most two counterexamples per (key, operator, space kind); count the rest."""
        k = (key, detail.get("operator"), detail.get("space"))
        self.cex_count[k] = self.cex_count.get(k, 0) + 1
        if self.cex_count[k] <= 2:
            self.res.counterexample(key, what, **detail)

    def params(self, order):
        p = self.DP()
        p.quadrature.regular = order
        return p

    def lib_eval(self, fam, space, X, c, par, order):
        ctor, ptype = self.ops[fam]
        args = () if ptype == "none" else (par,)
        pot = ctor(space, np.ascontiguousarray(X), *args, parameters=self.params(order))
        return np.asarray(pot.evaluate(self.api.GridFunction(space, coefficients=c)))

    def note(self, key, val):
        self.worst[key] = max(self.worst.get(key, 0.0), float(val))

    def pick_par(self, ptype, variant):
        rng = self.rng
        if ptype == "none":
            return None
        if ptype == "omega":
            return rng.uniform(0.3, 2.5)
        if variant == "real":
            return rng.uniform(0.5, 3.0)
        if variant == "imag":
            return complex(0.0, rng.uniform(0.3, 2.0))
        return complex(rng.uniform(0.5, 3.0), rng.uniform(0.1, 1.0))

    def geometry(self, sp):
        g = sp.grid
        return dict(vertices=np.asarray(g.vertices).tolist(), elements=np.asarray(g.elements).tolist(),
                    domain_indices=np.asarray(g.domain_indices).tolist(), support=[int(e) for e in sp.support_elements])

    # -- (a) sums
    def check_sum(self, fam, gname, lab, kindlab, sp, ref, par, variant, cplx, order):
        rng = self.rng
        c = rand_coeffs(sp.global_dof_count, rng, cplx)
        far = fam in ("ff-sl", "ff-dl", "maxwell-far-e", "maxwell-far-m")
        X = rand_dirs(5, rng) if far else eval_points(ref, rng, 3, 3)
        uv, w = (np.asarray(a, float) for a in self.rule(order))
        lib = self.lib_eval(fam, sp, X, c, par, order)
        val, scale = closed_form(fam, ref, c, uv, w, X, par)
        err = float((np.sqrt((np.abs(lib - val) ** 2).sum(axis=0)) / scale).max())
        info = dict(operator=fam, grid=gname, space=lab, wavenumber=None if par is None else str(par), order=order,
                    complex_coefficients=cplx)
        nontrivial = cplx and isinstance(par, complex) and par.real != 0 and par.imag != 0
        self.res.case(("sum", fam, lab, gname, variant, cplx, order), nontrivial=nontrivial,
                      sample=dict(info, rel_err=err) if nontrivial else None)
        if far and isinstance(par, complex) and par.imag != 0:
            # the known suspected finding: compare with the closed form for complex k; diagnose with Im k dropped
            self.ff["checked"] += 1
            if not err <= TOL_SUM:
                self.ff["disagree"] += 1
                j = int(np.argmax(np.sqrt((np.abs(lib - val) ** 2).sum(axis=0)) / scale))
                alt = closed_form_imag_k_dropped(fam, ref, c, uv, w, X, par)
                alt_err = float((np.sqrt((np.abs(lib - alt) ** 2).sum(axis=0)) / scale).max())
                if not any(x["operator"] == fam for x in self.ff["examples"]):
                    self.ff["examples"].append(dict(info, direction=X[:, j].tolist(), observed=str(lib[:, j].tolist()),
                                                    expected=str(val[:, j].tolist()), rel_err=err,
                                                    rel_err_against_formula_with_Im_k_dropped=alt_err))
                # the known finding only when the value IS the formula with Im k dropped; anything else is a new defect
                self.cex(
                    "farfield-ignores-imag-k" if alt_err <= TOL_SUM else f"farfield-sum-{fam}-{kindlab}-complex-k",
                    f"{fam} far field with complex k={par} differs from the closed-form sum of "
                    f"e^(-ik xh.y)/(4 pi) by {err:.3e} (relative to sum |terms|; tolerance {TOL_SUM:g}); it agrees to "
                    f"{alt_err:.1e} with the same formula where only Re k is used in the kernel",
                    rel_err=err, rel_err_with_imag_k_dropped=alt_err, direction=X[:, j].tolist(),
                    observed=str(lib[:, j].tolist()), expected=str(val[:, j].tolist()), coefficients=str(c.tolist()),
                    **info, **self.geometry(sp))
            return
        self.note(f"sum:{fam}", err)
        if not err <= TOL_SUM:
            j = int(np.argmax(np.sqrt((np.abs(lib - val) ** 2).sum(axis=0)) / scale))
            self.cex(
                f"{'farfield' if far else 'potential'}-sum-{fam}-{kindlab}",
                f"{fam} on {lab} ({gname} grid): value differs from the closed-form kernel sum over the library's quadrature "
                f"points by {err:.3e} relative (tolerance {TOL_SUM:g})",
                rel_err=err, point=X[:, j].tolist(), observed=str(lib[:, j].tolist()), expected=str(val[:, j].tolist()),
                coefficients=str(c.tolist()), **info, **self.geometry(sp))

    # -- (b) scalar PDE
    def check_pde_scalar(self, fam, gname, lab, kindlab, sp, ref, par, variant, cplx, order):
        rng = self.rng
        c = rand_coeffs(sp.global_dof_count, rng, cplx)
        X0 = pde_points(ref, rng, 3)
        if X0.size == 0:
            return
        h = FD_REL_H * dist_to_surface(ref, X0)
        U = self.lib_eval(fam, sp, stencil(X0, h), c, par, order)
        lam = LAMBDA[fam.rsplit("-", 1)[0]](par)
        for i in range(X0.shape[1]):
            R1, R2, T = fd_laplace_residuals(U, i, h[i], lam)
            ok, nums = judge(R1, R2, T, FD_FLOOR)
            nontrivial = cplx and isinstance(par, complex) and par.real != 0 and par.imag != 0
            self.res.case(("pde", fam, lab, gname, variant, cplx, i), nontrivial=nontrivial)
            for kk, vv in nums.items():
                self.note(f"fd:{kk}:scalar", vv)
            if not ok:
                self.cex(
                    f"pde-{fam}-{kindlab}",
                    f"{fam} potential on {lab} ({gname} grid) does not satisfy its PDE at x={X0[:, i].tolist()}: "
                    f"FD residual/terms at h: {nums.get('trunc')}, ratio R(h/2)/R(h): {nums.get('ratio')}, "
                    f"h-independent defect/terms: {nums.get('defect')}",
                    point=X0[:, i].tolist(), h=float(h[i]), wavenumber=str(par), lam=str(lam), order=order, numbers=nums,
                    coefficients=str(c.tolist()), operator=fam, space=lab, grid=gname, **self.geometry(sp))

    # -- (b) Maxwell PDE
    def check_pde_maxwell(self, gname, lab, sp, ref, k, variant, cplx):
        rng = self.rng
        c = rand_coeffs(sp.global_dof_count, rng, cplx)
        X0 = pde_points(ref, rng, 2)
        if X0.size == 0:
            return
        # keep the points at >= 1 mesh radius so that the quadrature ladder converges fast
        ctr = ref.V.mean(axis=1)
        rad = np.linalg.norm(ref.V - ctr[:, None], axis=0).max()
        X0 = ctr[:, None] + (X0 - ctr[:, None]) / np.linalg.norm(X0 - ctr[:, None], axis=0) * rad * np.array(
            [rng.uniform(2.0, 3.5) for _ in range(X0.shape[1])])
        h = FD_REL_H * dist_to_surface(ref, X0)
        S = stencil(X0, h)
        ladder = [3, 6, 10]
        defects = {"curlH+ikE": [], "divE": []}
        nontrivial = cplx and isinstance(k, complex)
        for order in ladder:
            Ev = self.lib_eval("maxwell-e", sp, S, c, k, order)
            Hv = self.lib_eval("maxwell-m", sp, S, c, k, order)
            for i in range(X0.shape[1]):
                e0, JE = fd_grad(Ev, i, h[i])
                h0, JH = fd_grad(Hv, i, h[i])
                checks = {
                    "curlE-ikH": ([curl_of(J) - 1j * k * h0 for J in JE],
                                  sum(np.abs(JE[0][a][b]) for a in range(3) for b in range(3) if a != b) + abs(k) * np.abs(h0).sum(), True),
                    "divH": ([np.trace(J) for J in JH], sum(np.abs(JH[0][a][a]) for a in range(3))
                             + 1e-3 * np.abs(JH[0]).sum(), True),
                    "curlH+ikE": ([curl_of(J) + 1j * k * e0 for J in JH],
                                  sum(np.abs(JH[0][a][b]) for a in range(3) for b in range(3) if a != b) + abs(k) * np.abs(e0).sum(), False),
                    "divE": ([np.trace(J) for J in JE], sum(np.abs(JE[0][a][a]) for a in range(3))
                             + 1e-3 * np.abs(JE[0]).sum(), False),
                }
                for name, (Rs, T, exact) in checks.items():
                    if exact:
                        ok, nums = judge(Rs[0], Rs[1], T, FD_FLOOR)
                        for kk, vv in nums.items():
                            self.note(f"fd:{kk}:maxwell-exact", vv)
                    else:
                        ok, nums = judge(Rs[0], Rs[1], T, FLOOR_Q)
                        defects[name].append((order, i, nums.get("defect", float("inf"))))
                        if order != ladder[-1]:
                            continue
                        prev = [d for (o, ii, d) in defects[name] if ii == i and o != order]
                        # the defect must not grow along the ladder (beyond the floor)
                        ok = ok and nums["defect"] <= max(max(prev), FLOOR_Q)
                        self.note(f"fd:defect:{name}@{order}", nums.get("defect", float("inf")))
                        self.note(f"fd:defect:{name}@{ladder[0]}", max(prev))
                    self.res.case(("pde-maxwell", name, lab, gname, variant, cplx, order, i), nontrivial=nontrivial)
                    if not ok:
                        self.cex(
                            f"pde-maxwell-{name}",
                            f"Maxwell potentials on {lab} ({gname} grid), k={k}: {name} violated at x={X0[:, i].tolist()} "
                            f"(order {order}): residual/terms {nums.get('trunc')}, ratio {nums.get('ratio')}, defect/terms "
                            f"{nums.get('defect')}; ladder {defects.get(name)}",
                            point=X0[:, i].tolist(), h=float(h[i]), wavenumber=str(k), order=order, numbers=nums,
                            coefficients=str(c.tolist()), space=lab, grid=gname, **self.geometry(sp))
        self.res.stats.setdefault("maxwell_quadrature_ladders", [])
        if len(self.res.stats["maxwell_quadrature_ladders"]) < 4:
            self.res.stats["maxwell_quadrature_ladders"].append(
                {n: [(o, i, float(f"{d:.2e}")) for o, i, d in v] for n, v in defects.items()})

    # -- (c) far-field limit and translation
    def check_limit(self, fam, gname, lab, kindlab, sp, ref, k, cplx, order):
        rng = self.rng
        far = FAR_OF[fam]
        c = rand_coeffs(sp.global_dof_count, rng, cplx)
        D = rand_dirs(4, rng)
        if isinstance(k, complex):
            radii = [1e3, 3e3, 1e4]
        else:
            radii = [1e3, 1e4, 1e5]
        ctr = np.zeros(3)
        g = []
        for r in radii:
            u = self.lib_eval(fam, sp, ctr[:, None] + r * D, c, k, order)
            g.append(r * np.exp(-1j * k * r) * u)
        s = [1.0 / r for r in radii]
        # Neville extrapolation to s = 0
        tab = [gi.astype(complex) for gi in g]
        for m in range(1, len(tab)):
            for i in range(len(tab) - m):
                tab[i] = (s[i] * tab[i + 1] - s[i + m] * tab[i]) / (s[i] - s[i + m])
        lim = tab[0]
        F = self.lib_eval(far, sp, D, c, k, order)
        uv, w = (np.asarray(a, float) for a in self.rule(order))
        _, scale = closed_form(far, ref, c, uv, w, D, k)
        err = float((np.sqrt((np.abs(F - lim) ** 2).sum(axis=0)) / scale).max())
        raw = float((np.sqrt((np.abs(F - g[-1]) ** 2).sum(axis=0)) / scale).max())
        info = dict(operator=far, potential=fam, grid=gname, space=lab, wavenumber=str(k), order=order, radii=radii)
        self.res.case(("limit", fam, lab, gname, str(type(k).__name__), cplx), nontrivial=cplx and isinstance(k, complex),
                      sample=dict(info, rel_err_extrapolated=err, rel_err_last_radius=raw))
        if isinstance(k, complex):
            self.ff["checked"] += 1
            if not err <= TOL_LIMIT:
                self.ff["disagree"] += 1
                j = int(np.argmax(np.sqrt((np.abs(F - lim) ** 2).sum(axis=0)) / scale))
                alt = closed_form_imag_k_dropped(far, ref, c, uv, w, D, k)
                alt_err = float((np.sqrt((np.abs(F - alt) ** 2).sum(axis=0)) / scale).max())
                self.cex(
                    "farfield-ignores-imag-k" if alt_err <= TOL_SUM else f"farfield-limit-{far}-{kindlab}-complex-k",
                    f"{far} with complex k={k}: far field differs from lim r e^(-ikr) * potential(r xh) by {err:.3e} "
                    f"(relative to sum |terms|; tolerance {TOL_LIMIT:g}); the far field equals the closed form with Im k "
                    f"dropped in the kernel to {alt_err:.1e}",
                    rel_err=err, rel_err_with_imag_k_dropped=alt_err, direction=D[:, j].tolist(), observed=str(F[:, j].tolist()), limit=str(lim[:, j].tolist()),
                    coefficients=str(c.tolist()), **info, **self.geometry(sp))
            return
        self.note(f"limit:{far}", err)
        if not err <= TOL_LIMIT:
            j = int(np.argmax(np.sqrt((np.abs(F - lim) ** 2).sum(axis=0)) / scale))
            self.cex(
                f"farfield-limit-{far}-{kindlab}",
                f"{far} on {lab} ({gname} grid), k={k}: far field differs from lim r e^(-ikr) * potential(r xh) by "
                f"{err:.3e} (tolerance {TOL_LIMIT:g}; last radius alone: {raw:.3e})",
                rel_err=err, direction=D[:, j].tolist(), observed=str(F[:, j].tolist()), limit=str(lim[:, j].tolist()),
                coefficients=str(c.tolist()), **info, **self.geometry(sp))

    def check_translation(self, far, gname, lab, kindlab, sp, ref, k, cplx, order, kw):
        rng, api = self.rng, self.api
        c = rand_coeffs(sp.global_dof_count, rng, cplx)
        D = rand_dirs(4, rng)
        t = np.array([rng.uniform(-2, 2) for _ in range(3)])
        g = sp.grid
        g2 = api.Grid(np.asarray(g.vertices) + t[:, None], np.asarray(g.elements), np.asarray(g.domain_indices))
        kind = {"dp0": ("DP", 0), "dp1": ("DP", 1), "p1": ("P", 1), "rwg0": ("RWG", 0)}[kindlab]
        sp2 = api.function_space(g2, kind[0], kind[1], scatter=False, **kw)
        if sp2.global_dof_count != sp.global_dof_count or not np.array_equal(sp2.local2global, sp.local2global):
            return
        F1 = self.lib_eval(far, sp, D, c, k, order)
        F2 = self.lib_eval(far, sp2, D, c, k, order)
        phase = np.exp(-1j * k * (D.T @ t))
        uv, w = (np.asarray(a, float) for a in self.rule(order))
        _, scale = closed_form(far, ref, c, uv, w, D, k)
        scale = scale * np.maximum(1.0, np.abs(phase))
        err = float((np.sqrt((np.abs(F2 - phase[None, :] * F1) ** 2).sum(axis=0)) / scale).max())
        info = dict(operator=far, grid=gname, space=lab, wavenumber=str(k), order=order, translation=t.tolist())
        self.res.case(("translation", far, lab, gname, str(type(k).__name__), cplx),
                      nontrivial=cplx and isinstance(k, complex))
        if isinstance(k, complex):
            self.ff["checked"] += 1
            if not err <= TOL_TRANS:
                self.ff["disagree"] += 1
                j = int(np.argmax(np.sqrt((np.abs(F2 - phase[None, :] * F1) ** 2).sum(axis=0)) / scale))
                phase_re = np.exp(-1j * k.real * (D.T @ t))
                alt_err = float((np.sqrt((np.abs(F2 - phase_re[None, :] * F1) ** 2).sum(axis=0)) / scale).max())
                self.cex(
                    "farfield-ignores-imag-k" if alt_err <= TOL_TRANS else f"farfield-translation-{far}-{kindlab}-complex-k",
                    f"{far} with complex k={k}: translating the grid by t multiplies the far field by "
                    f"{(F2[0, j] / F1[0, j])} instead of e^(-ik xh.t) = {phase[j]} (deviation {err:.3e}); it is "
                    f"e^(-i Re(k) xh.t) to {alt_err:.1e}",
                    rel_err=err, rel_err_with_imag_k_dropped=alt_err, direction=D[:, j].tolist(), factor_observed=str(F2[0, j] / F1[0, j]),
                    factor_expected=str(phase[j]), coefficients=str(c.tolist()), **info, **self.geometry(sp))
            return
        self.note(f"translation:{far}", err)
        if not err <= TOL_TRANS:
            j = int(np.argmax(np.sqrt((np.abs(F2 - phase[None, :] * F1) ** 2).sum(axis=0)) / scale))
            self.cex(
                f"farfield-translation-{far}-{kindlab}",
                f"{far} on {lab}, k={k}: far field of the translated grid is not e^(-ik xh.t) times the original "
                f"(deviation {err:.3e}, tolerance {TOL_TRANS:g})",
                rel_err=err, direction=D[:, j].tolist(), observed=str(F2[:, j].tolist()),
                expected=str((phase[None, :] * F1)[:, j].tolist()), coefficients=str(c.tolist()), **info,
                **self.geometry(sp))


def _space_kwargs(lab):
    kw = {}
    if "-seg" in lab:
        kw["segments"] = [1, 2] if "notrunc" in lab else [1]
        if "-bd" in lab:
            kw["include_boundary_dofs"] = True
        if "notrunc" in lab:
            kw["truncate_at_segment_edge"] = False
    return kw


def _run(ctx, api, res, deep):
    R = Runner(ctx, api, res, deep)
    rng = ctx.rng
    thorough = R.thorough
    grids = make_grids(api, rng, thorough)
    scalar_fams = ["laplace-sl", "laplace-dl", "helmholtz-sl", "helmholtz-dl", "modhelmholtz-sl", "modhelmholtz-dl"]
    if thorough:
        units = [(f, s) for f in scalar_fams for s in ("p0", "p1")]
        far_units = [("ff-sl", "p0"), ("ff-sl", "p1"), ("ff-dl", "p0"), ("ff-dl", "p1")]
        maxwell = ["maxwell-e", "maxwell-m", "maxwell-far-e", "maxwell-far-m"]
    else:
        hl = rng.choice(["helmholtz-sl", "helmholtz-dl"])
        s = rng.choice(["p0", "p1"])
        other = rng.choice([f for f in scalar_fams if not f.startswith("helmholtz")])
        units = [(hl, s), (other, "p1" if s == "p0" else rng.choice(["p0", "p1"]))]
        far_units = [(FAR_OF[hl], s)]
        # each of the four Maxwell kernels has its own accumulation loop: all four in every run (seed C08-b, a conjugation
        # slip in the electric far field only, was missed by a run that had drawn another pair)
        maxwell = ["maxwell-e", "maxwell-m", "maxwell-far-e", "maxwell-far-m"]
    focus = [f for f in os.environ.get("VERIF_ORACLE_FOCUS", "").split(",") if f]
    if focus and not thorough:  # for mutation experiments: force the units of the quick tier, e.g. "helmholtz-dl/p1,ff-dl/p1,maxwell-e"
        units = [tuple(f.split("/")) for f in focus if "/" in f and not f.startswith("ff-")]
        far_units = [tuple(f.split("/")) for f in focus if f.startswith("ff-")]
        maxwell = [f for f in focus if f.startswith("maxwell")]
    res.stats["units"] = [f"{f}/{s}" for f, s in units + far_units] + maxwell
    space_cache = {}

    def spaces(shapeset):
        if shapeset not in space_cache:
            sl = spaces_for(api, grids, shapeset, rng, thorough)
            space_cache[shapeset] = [(g, lab, kl, sp, bd, RefSpace(sp)) for g, lab, kl, sp, bd in sl]
        return space_cache[shapeset]

    def variants(ptype):
        if ptype != "k":
            return ["-"]
        return ["real", "complex"] + (["imag"] if thorough else [])

    n_orders = 3 if thorough else 1
    for fam, shapeset in units:
        t0 = time.time()
        ptype = R.ops[fam][1]
        for gname, lab, kl, sp, bd, ref in spaces(shapeset):
            for variant in variants(ptype):
                for cplx in (False, True):
                    for _ in range(n_orders):
                        par = R.pick_par(ptype, variant)
                        order = rng.randrange(1, 9)
                        # (variant "imag": Helmholtz potentials with Re k = 0 are routed to modified Helmholtz)
                        R.check_sum(fam, gname, lab, kl, sp, ref, par, variant, cplx, order)
                    R.check_pde_scalar(fam, gname, lab, kl, sp, ref, R.pick_par(ptype, "complex" if variant != "real" else "real"),
                                       variant, cplx, rng.randrange(2, 7))
        ctx.log(f"{fam}/{shapeset}: {time.time() - t0:.1f}s")

    for far, shapeset in far_units:
        t0 = time.time()
        pot_fam = {v: k for k, v in FAR_OF.items()}[far]
        for gname, lab, kl, sp, bd, ref in spaces(shapeset):
            for variant in ("real", "complex"):
                for cplx in (False, True):
                    order = rng.randrange(1, 9)
                    k = R.pick_par("k", variant)
                    R.check_sum(far, gname, lab, kl, sp, ref, k, variant, cplx, order)
                    if variant == "complex":
                        k = complex(k.real, rng.uniform(1e-3, 5e-3))
                    if (pot_fam, shapeset) in units:
                        R.check_limit(pot_fam, gname, lab, kl, sp, ref, k, cplx, order)
                    R.check_translation(far, gname, lab, kl, sp, ref, R.pick_par("k", variant), cplx, order, _space_kwargs(lab))
        ctx.log(f"{far}/{shapeset}: {time.time() - t0:.1f}s")

    t0 = time.time()
    for gname, lab, kl, sp, bd, ref in spaces("rwg"):
        for variant in ("real", "complex"):
            for cplx in (False, True):
                for fam in maxwell:
                    order = rng.randrange(1, 9)
                    R.check_sum(fam, gname, lab, kl, sp, ref, R.pick_par("k", variant), variant, cplx, order)
                for fam in maxwell:
                    if fam in FAR_OF and FAR_OF[fam] in maxwell:
                        k = R.pick_par("k", variant)
                        if variant == "complex":
                            k = complex(k.real, rng.uniform(1e-3, 5e-3))
                        R.check_limit(fam, gname, lab, kl, sp, ref, k, cplx, rng.randrange(2, 7))
                        R.check_translation(FAR_OF[fam], gname, lab, kl, sp, ref, R.pick_par("k", variant), cplx,
                                            rng.randrange(2, 7), _space_kwargs(lab))
            if "maxwell-e" in maxwell and "maxwell-m" in maxwell and not bd and (thorough or gname != "segment"):
                R.check_pde_maxwell(gname, lab, sp, ref, R.pick_par("k", variant), variant, variant == "complex")
    ctx.log(f"maxwell {maxwell}: {time.time() - t0:.1f}s")

    res.stats["worst"] = {k: float(f"{v:.3e}") for k, v in sorted(R.worst.items())}
    sums = [v for k, v in R.worst.items() if k.startswith("sum:")]
    res.stats["worst_sum_rel_err"] = max(sums) if sums else None
    res.stats["tolerances"] = dict(sum=TOL_SUM, limit=TOL_LIMIT, translation=TOL_TRANS, fd=dict(
        rel_h=FD_REL_H, c1=FD_C1, c2=FD_C2, c3=FD_C3, floor=FD_FLOOR, floor_quadrature=FLOOR_Q))
    res.stats["farfield_complex_k"] = dict(checked=R.ff["checked"], disagree=R.ff["disagree"], examples=R.ff["examples"])
    res.stats["counterexamples_seen"] = {"|".join(str(x) for x in k): v for k, v in sorted(R.cex_count.items(), key=str)}


def oracle(ctx, deep=False):
    import numba
    import bempp_cl.api as api

    res = Result()
    t_start, c_start = time.time(), time.process_time()
    old_threads = numba.get_num_threads()
    # tiny problems: OpenMP fork/join over all cores costs seconds per call on a loaded machine
    numba.set_num_threads(max(1, min(old_threads, int(os.environ.get("VERIF_ORACLE_THREADS", "1")))))
    try:
        _run(ctx, api, res, deep)
    finally:
        numba.set_num_threads(old_threads)
    res.stats["oracle_wall_s"] = round(time.time() - t_start, 1)
    res.stats["oracle_cpu_s"] = round(time.process_time() - c_start, 1)
    return res


if __name__ == "__main__":
    tier = sys.argv[1] if len(sys.argv) > 1 else "quick"
    seed = int(sys.argv[2]) if len(sys.argv) > 2 else int(os.environ.get("VERIF_SEED", "0"))
    deep = len(sys.argv) > 3 and sys.argv[3] == "deep"
    ctx = Ctx("C08", tier, seed)
    r = oracle(ctx, deep=deep)
    print("cases", r.evaluations, "nontrivial", len(r.nontrivial))
    for k, v in r.stats.items():
        print("stat", k, v)
    keys = {}
    for c in r.counterexamples:
        keys.setdefault(c["key"], []).append(c)
    print("counterexamples", len(r.counterexamples), {k: len(v) for k, v in keys.items()})
    for k, v in keys.items():
        print("  CEX", k, "|", v[0]["what"][:400])
    print(f"wall {time.time() - ctx.t0:.1f}s")
