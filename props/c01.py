"""C01 — Laplace boundary operators satisfy the Calderón identities on any polyhedron (partial)."""
import numpy as np

from vlib.common import Result
from vlib import meshgen as mg
from props import shared

PID = "C01"
LEAN_MODULES = ["BemppVerif.Props.C01", "BemppVerif.Props.C01Pairs", "BemppVerif.Gen.AsmMatch", "BemppVerif.Lemmas.KernelCalculus"]
LEAN_MODULES += shared.CTOR_MODULES
N = "BemppVerif.C01."
THEOREMS = []
PARTIAL = {
    N + "dense_is_galerkin_sum": "the Calderón identities for the exact integrals and the convergence of the quadrature to "
    "them are classical analysis (not formalised): the theorems show that the four assembled matrices are the Galerkin sums "
    "of the local quadrature formulas with kernels G, dG/dn_y, dG/dn_x and curl.curl x G; the residual bound 1e-6 is checked "
    "by the numerical oracle only",
}
TRUSTED = [
    "Tie B: assembler tracing (vlib/asmtrace.py, props/asm_gen.py) and kernel tracing (props/kernels_gen.py)",
    "Tie A: props/sing_gen.py (offset table, remap order), props/c12_gen.py (quadrature tables)",
    "hand model Model/Asm.lean + Model/Sing.lean, tied to the source by the generated AsmMatch theorems (symbolic, one generic "
    "configuration), by differential comparison of the singular index/offset vectors, and by comparing the REAL assembled "
    "dense matrix (polynomial kernel injected) with the model evaluated in exact rational arithmetic (driver asmdense)",
    "classical analysis not formalised: Calderón identities, convergence of Gauss / Sauter-Schwab quadrature",
    shared.CTOR_TRUSTED,
]
ASSUMPTIONS = ["NoDupElems: two distinct elements never have the same three vertices",
               "oracle tolerances calibrated on the repaired tree (see props/c01_oracle.py)"]
RULE = ("correspondence: singular index/offset vectors of the real rule interface vs the model on closed/open/multi-domain "
        "meshes with whole-grid and segment supports, orders 1-4; non-trivial when the pair list contains edge- or "
        "vertex-adjacent pairs.  oracle: see props/c01_oracle.py (non-convex / genus-1 / multi-component meshes, a != 0)")
LEVEL_TEXT = ("Lean 4 theorems for ALL grids, spaces, sizes and orders: the dense assembler (regular launches per colour + "
              "scattered singular part) equals the Galerkin double sum of the local quadrature formulas "
              "(dense_is_galerkin_sum); every ordered pair of supported elements gets exactly one rule - coincident, edge-adjacent, vertex-adjacent or regular - (pairs_cover_adjacent_exactly_once, from C11's adjacency theorems); offsets of the singular bookkeeping address exactly the remapped rule blocks; remaps "
              "put the shared edge/vertex on the reference edge/vertex; the hypersingular local formulas equal curl.curl times "
              "the single-layer ones; the traced Laplace kernels equal G, dG/dn_y, dG/dn_x (with HasDerivAt proofs). The "
              "model is tied to the source by 140 generated theorems 'model = trace of the real assembler'.")
LEVEL_NOTE = ("partial: the analytic Calderón identities and quadrature convergence are trusted (oracle only). Trusted: Lean "
              "kernel, tracers/extractors, hand models tied by generated match theorems and differential comparison.")
TECHNIQUE = "Lean 4 proof (refinement to a Galerkin spec, generated trace-match theorems) + correspondence + numerical oracle"


def generate(ctx):
    info = dict(kernels=shared.gen_kernels()[0], asm=shared.gen_asm()[0], sing=shared.gen_sing(),
                c12=shared.gen_c12_tables())
    THEOREMS[:] = ([N + t for t in ("dense_is_galerkin_sum", "one_rule_per_pair", "sing_pairs_in_support",
                                    "offsets_select_remap", "remap_edge_physical", "remap_vertex_physical",
                                    "pairs_cover_adjacent_exactly_once")]
                   + [shared.SPEC + t for t in ("dense_refines_spec", "denseRegular_refines", "singular_refines",
                                                "offset_table_inverts_order", "edge_block", "vertex_block", "coincident_block")]
                   + shared.asm_theorems("regular_matches", "singular_matches", "identity_matches", "hyp_regular", "hyp_singular")
                   + shared.KERNEL_FACTS["laplace"] + shared.CALCULUS["laplace"]
                   + ["BemppVerif.C12.vertex_adjacent_exact", "BemppVerif.C12.duffy_count"])
    info.update(shared.gen_ctors()[0])
    THEOREMS.extend(shared.ctor_theorems('laplace_boundary')
                    + [t for t in shared.CTOR_SPEC if t.split('.')[-1] in ('hypersingular_uses_single_layer_kernel', 'singular_part_and_dtype')])
    return info


def _cases(ctx):
    import bempp_cl.api as api
    rng = ctx.rng
    out = []
    meshes = [("tetrahedron", mg.tetrahedron()), ("octahedron", mg.octahedron()), ("cube", mg.cube(1)),
              ("screen", mg.screen(2, 2)), ("lshape", mg.lshape())]
    if ctx.thorough:
        meshes += [("cube2", mg.cube(2)), ("torus", mg.torus_voxel()), ("icosahedron", mg.icosahedron())]
    for name, (V, E) in meshes:
        ne = E.shape[1]
        D = mg.random_domains(ne, rng, labels=(0, 1, 4))
        g = api.Grid(V, E, D)
        full = np.ones(ne, dtype=bool)
        sub1 = np.array([rng.random() < 0.6 for _ in range(ne)])
        sub2 = np.array([rng.random() < 0.6 for _ in range(ne)])
        for order in ctx.pick((1, 3), (1, 2, 3, 4)):
            out.append((f"{name}-full-{order}", g, full, full, order))
            out.append((f"{name}-sub-{order}", g, sub1, sub2, order))
    return out


def correspondence(ctx):
    res = Result()
    shared.sing_pairs_correspondence(ctx, res, _cases(ctx))
    res.merge(shared.trace_validation(ctx, PID))
    return res


def oracle(ctx, deep=False):
    f = shared.load_oracle(PID)
    if f is None:
        r = Result()
        r.notes.append("props/c01_oracle.py not present: no numerical oracle run")
        return r
    return f(ctx, deep)


def search(ctx, broken):
    return oracle(ctx, deep=True)
