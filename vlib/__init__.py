"""Verification library.  Importing it caps Numba's thread pool (results must not depend on the thread count - C16 checks
that - and concurrent checks must not oversubscribe the machine)."""
import os

os.environ.setdefault("NUMBA_NUM_THREADS", "4")
os.environ.setdefault("OMP_NUM_THREADS", "4")
os.environ.setdefault("OPENBLAS_NUM_THREADS", "4")
os.environ.setdefault("MKL_NUM_THREADS", "4")
