"""Mesh generators that do not need gmsh.  Every function returns (vertices 3xN float64, elements 3xM uint32
[, domain_indices]).  All closed meshes are outward oriented."""
import itertools
import math
import random

import numpy as np


def _orient_outward(V, E, centre=None):
    V = np.asarray(V, float)
    E = np.array(E, dtype=np.int64)
    c = V.mean(axis=1) if centre is None else np.asarray(centre, float)
    for j in range(E.shape[1]):
        a, b, d = (V[:, E[i, j]] for i in range(3))
        n = np.cross(b - a, d - a)
        if np.dot(n, (a + b + d) / 3 - c) < 0:
            E[1, j], E[2, j] = E[2, j], E[1, j]
    return V, E.astype(np.uint32)


def tetrahedron():
    V = np.array([[1, 1, 1], [1, -1, -1], [-1, 1, -1], [-1, -1, 1]], float).T
    E = np.array([[0, 1, 2], [0, 1, 3], [0, 2, 3], [1, 2, 3]]).T
    return _orient_outward(V, E)


def octahedron():
    V = np.array([[1, 0, 0], [-1, 0, 0], [0, 1, 0], [0, -1, 0], [0, 0, 1], [0, 0, -1]], float).T
    E = []
    for x in (0, 1):
        for y in (2, 3):
            for z in (4, 5):
                E.append([x, y, z])
    return _orient_outward(V, np.array(E).T)


def cube(n=1, flip_diag=False, size=1.0, origin=(0, 0, 0)):
    """Cube [0,size]^3 with n x n quads per face, each split into two triangles."""
    pts = {}
    V = []

    def vid(p):
        key = tuple(int(round(c)) for c in p)
        if key not in pts:
            pts[key] = len(V)
            V.append([origin[i] + size * key[i] / n for i in range(3)])
        return pts[key]

    E = []
    for axis in range(3):
        for side in (0, n):
            u, v = [a for a in range(3) if a != axis]
            for i in range(n):
                for j in range(n):
                    def P(a, b):
                        p = [0, 0, 0]
                        p[axis] = side
                        p[u] = a
                        p[v] = b
                        return vid(p)
                    q = [P(i, j), P(i + 1, j), P(i + 1, j + 1), P(i, j + 1)]
                    if flip_diag ^ ((i + j) % 2 == 1):
                        E.append([q[0], q[1], q[3]])
                        E.append([q[1], q[2], q[3]])
                    else:
                        E.append([q[0], q[1], q[2]])
                        E.append([q[0], q[2], q[3]])
    V = np.array(V, float).T
    c = np.array(origin, float) + size / 2
    return _orient_outward(V, np.array(E).T, centre=c)


def icosahedron():
    t = (1 + math.sqrt(5)) / 2
    V = []
    for a, b in itertools.product((-1, 1), (-t, t)):
        V += [[0, a, b], [a, b, 0], [b, 0, a]]
    V = np.array(V, float).T
    n = V.shape[1]
    E = []
    d2 = 4.0
    for i, j, k in itertools.combinations(range(n), 3):
        if all(abs(np.sum((V[:, p] - V[:, q]) ** 2) - d2) < 1e-9 for p, q in ((i, j), (j, k), (i, k))):
            E.append([i, j, k])
    return _orient_outward(V, np.array(E).T)


def lshape():
    """Non-convex L-shaped prism built from unit cubes (closed, genus 0)."""
    cells = [(0, 0, 0), (1, 0, 0), (0, 1, 0)]
    return _voxel_surface(cells)


def torus_voxel():
    """Genus-1 closed surface: a ring of 8 unit cubes."""
    cells = [(i, j, 0) for i in range(3) for j in range(3) if (i, j) != (1, 1)]
    return _voxel_surface(cells)


def _voxel_surface(cells, alt=False):
    cells = set(cells)
    pts, V, E = {}, [], []

    def vid(p):
        if p not in pts:
            pts[p] = len(V)
            V.append(list(map(float, p)))
        return pts[p]

    dirs = [(1, 0, 0), (-1, 0, 0), (0, 1, 0), (0, -1, 0), (0, 0, 1), (0, 0, -1)]
    for c in sorted(cells):
        for d in dirs:
            nb = tuple(c[i] + d[i] for i in range(3))
            if nb in cells:
                continue
            axis = [i for i in range(3) if d[i] != 0][0]
            side = c[axis] + (1 if d[axis] > 0 else 0)
            u, v = [a for a in range(3) if a != axis]
            q = []
            for a, b in ((0, 0), (1, 0), (1, 1), (0, 1)):
                p = [0, 0, 0]
                p[axis] = side
                p[u] = c[u] + a
                p[v] = c[v] + b
                q.append(vid(tuple(p)))
            tris = [[q[0], q[1], q[2]], [q[0], q[2], q[3]]]
            if alt and (c[u] + c[v]) % 2:
                tris = [[q[0], q[1], q[3]], [q[1], q[2], q[3]]]
            for t in tris:
                a_, b_, c_ = (np.array(V[i]) for i in t)
                nrm = np.cross(b_ - a_, c_ - a_)
                if np.dot(nrm, d) < 0:
                    t = [t[0], t[2], t[1]]
                E.append(t)
    return np.array(V, float).T, np.array(E, dtype=np.uint32).T


def screen(nx=2, ny=2, wobble=0.0, rng=None):
    """Open rectangular screen in the plane z=0 (slightly bent when wobble>0)."""
    rng = rng or random.Random(0)
    V = []
    for j in range(ny + 1):
        for i in range(nx + 1):
            V.append([i / nx, j / ny * 0.8, wobble * rng.uniform(-1, 1)])
    E = []
    for j in range(ny):
        for i in range(nx):
            a = j * (nx + 1) + i
            b, c, d = a + 1, a + nx + 2, a + nx + 1
            if (i + j) % 2:
                E += [[a, b, d], [b, c, d]]
            else:
                E += [[a, b, c], [a, c, d]]
    return np.array(V, float).T, np.array(E, dtype=np.uint32).T


def perturb(V, amount, rng, dyadic_bits=None):
    V = V.copy()
    for i in range(V.shape[0]):
        for j in range(V.shape[1]):
            V[i, j] += amount * rng.uniform(-1, 1)
    if dyadic_bits:
        V = np.round(V * 2**dyadic_bits) / 2**dyadic_bits
    return V


def relabel(V, E, rng, D=None):
    """Random vertex and element permutation and random cyclic rotation of local vertices."""
    nv, ne = V.shape[1], E.shape[1]
    pv = list(range(nv))
    rng.shuffle(pv)  # old -> new
    pe = list(range(ne))
    rng.shuffle(pe)
    V2 = np.zeros_like(V)
    for old, new in enumerate(pv):
        V2[:, new] = V[:, old]
    E2 = np.zeros_like(E)
    D2 = None if D is None else np.zeros_like(D)
    for old, new in enumerate(pe):
        r = rng.randrange(3)
        for k in range(3):
            E2[k, new] = pv[int(E[(k + r) % 3, old])]
        if D is not None:
            D2[new] = D[old]
    return (V2, E2) if D is None else (V2, E2, D2)


def rigid(V, rng):
    """Random rotation + translation."""
    a, b, c = (rng.uniform(0, 2 * math.pi) for _ in range(3))
    Rx = np.array([[1, 0, 0], [0, math.cos(a), -math.sin(a)], [0, math.sin(a), math.cos(a)]])
    Ry = np.array([[math.cos(b), 0, math.sin(b)], [0, 1, 0], [-math.sin(b), 0, math.cos(b)]])
    Rz = np.array([[math.cos(c), -math.sin(c), 0], [math.sin(c), math.cos(c), 0], [0, 0, 1]])
    R = Rx @ Ry @ Rz
    t = np.array([rng.uniform(-3, 3) for _ in range(3)])
    return R @ V + t[:, None], R, t


def union(meshes):
    Vs, Es, off = [], [], 0
    for V, E in meshes:
        Vs.append(V)
        Es.append(E.astype(np.int64) + off)
        off += V.shape[1]
    return np.hstack(Vs), np.hstack(Es).astype(np.uint32)


CLOSED = {
    "tetrahedron": tetrahedron,
    "octahedron": octahedron,
    "cube": cube,
    "icosahedron": icosahedron,
    "lshape": lshape,
    "torus": torus_voxel,
}


def closed_mesh(name, rng=None, perturbation=0.0):
    V, E = CLOSED[name]()
    if perturbation and rng is not None:
        V = perturb(V, perturbation, rng)
    return V, E


def random_domains(ne, rng, labels=(0, 1, 2, 5)):
    return np.array([rng.choice(labels) for _ in range(ne)], dtype=np.uint32)


def random_soup(rng, nv=None, ne=None, allow_nonmanifold=True):
    """Random triangle soup (non-degenerate elements; may be non-manifold, disconnected, with isolated vertices)."""
    nv = nv or rng.randrange(3, 9)
    ne = ne or rng.randrange(1, 10)
    V = np.array([[rng.randrange(-8, 9) / 4 for _ in range(nv)] for _ in range(3)], float)
    E = []
    seen = set()
    tries = 0
    while len(E) < ne and tries < 200:
        tries += 1
        t = rng.sample(range(nv), 3)
        key = frozenset(t)
        if key in seen:
            continue
        seen.add(key)
        E.append(t)
    return V, np.array(E, dtype=np.uint32).T


def subcomplexes(E, max_elems=None):
    """All non-empty subsets of the columns of E (as index tuples)."""
    m = E.shape[1]
    for k in range(1, (max_elems or m) + 1):
        for sub in itertools.combinations(range(m), k):
            yield sub


def make_grid(V, E, D=None):
    import bempp_cl.api as api
    return api.Grid(np.asarray(V, float), np.asarray(E, np.uint32), None if D is None else np.asarray(D, np.uint32))
