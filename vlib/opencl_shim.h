// Symbolic shim for tracing the OpenCL C kernel headers of bempp-cl with a C++ compiler.
// REALTYPE becomes a class that records expressions; vector types are element-wise arrays.
// Compiled by props/cl_gen.py together with a generated main() that calls every kernel function.
#ifndef VERIF_OPENCL_SHIM_H
#define VERIF_OPENCL_SHIM_H
#include <cstdio>
#include <cstdlib>
#include <string>
#include <vector>
#include <math.h>

namespace shim {
enum Op { VAR, CONST, ADD, SUB, MUL, DIV, NEG, FN, UNSET };
struct Node {
  Op op;
  int a, b;
  std::string name;
  double c;
};
static std::vector<Node> nodes;
static int g_p1_nonzero = 0;
static int mk(Op op, int a = -1, int b = -1, const std::string& name = "", double c = 0) {
  nodes.push_back(Node{op, a, b, name, c});
  return (int)nodes.size() - 1;
}
}  // namespace shim

struct Sym {
  int id;
  Sym() : id(shim::mk(shim::UNSET)) {}
  Sym(double c) : id(shim::mk(shim::CONST, -1, -1, "", c)) {}
  Sym(float c) : id(shim::mk(shim::CONST, -1, -1, "", (double)c)) {}
  Sym(int c) : id(shim::mk(shim::CONST, -1, -1, "", (double)c)) {}
  static Sym var(const std::string& n) {
    Sym s(0);
    s.id = shim::mk(shim::VAR, -1, -1, n);
    return s;
  }
  static Sym bin(shim::Op op, const Sym& a, const Sym& b) {
    Sym s(0);
    s.id = shim::mk(op, a.id, b.id);
    return s;
  }
  static Sym fn(const char* n, const Sym& a) {
    Sym s(0);
    s.id = shim::mk(shim::FN, a.id, -1, n);
    return s;
  }
  bool is_set() const { return shim::nodes[id].op != shim::UNSET; }
  friend Sym operator+(const Sym& a, const Sym& b) { return bin(shim::ADD, a, b); }
  friend Sym operator-(const Sym& a, const Sym& b) { return bin(shim::SUB, a, b); }
  friend Sym operator*(const Sym& a, const Sym& b) { return bin(shim::MUL, a, b); }
  friend Sym operator/(const Sym& a, const Sym& b) { return bin(shim::DIV, a, b); }
  Sym operator-() const {
    Sym s(0);
    s.id = shim::mk(shim::NEG, id);
    return s;
  }
  Sym operator+() const { return *this; }
  Sym& operator+=(const Sym& o) { return *this = *this + o; }
  Sym& operator-=(const Sym& o) { return *this = *this - o; }
  Sym& operator*=(const Sym& o) { return *this = *this * o; }
  Sym& operator/=(const Sym& o) { return *this = *this / o; }
  friend bool operator!=(const Sym& a, const Sym& b) {
    const shim::Node& na = shim::nodes[a.id];
    const shim::Node& nb = shim::nodes[b.id];
    if (na.op == shim::CONST && nb.op == shim::CONST) return na.c != nb.c;
    if (na.op == shim::VAR && na.name == "p1" && nb.op == shim::CONST && nb.c == 0) return shim::g_p1_nonzero != 0;
    fprintf(stderr, "TRACE-ERROR: comparison on a symbolic value other than p1 != 0\n");
    exit(3);
  }
  friend bool operator==(const Sym& a, const Sym& b) { return !(a != b); }
};

inline Sym sqrt(const Sym& a) { return Sym::fn("sqrt", a); }
inline Sym native_sqrt(const Sym& a) { return Sym::fn("sqrt", a); }
inline Sym rsqrt(const Sym& a) { return Sym(1.0) / Sym::fn("sqrt", a); }
inline Sym native_rsqrt(const Sym& a) { return Sym(1.0) / Sym::fn("sqrt", a); }
inline Sym cos(const Sym& a) { return Sym::fn("cos", a); }
inline Sym sin(const Sym& a) { return Sym::fn("sin", a); }
inline Sym exp(const Sym& a) { return Sym::fn("exp", a); }
inline Sym native_cos(const Sym& a) { return Sym::fn("cos", a); }
inline Sym native_sin(const Sym& a) { return Sym::fn("sin", a); }
inline Sym native_exp(const Sym& a) { return Sym::fn("exp", a); }

struct Sym2 {
  Sym x, y;
};
struct Sym3 {
  Sym x, y, z;
  friend Sym3 operator-(const Sym3& a, const Sym3& b) { return Sym3{a.x - b.x, a.y - b.y, a.z - b.z}; }
  friend Sym3 operator+(const Sym3& a, const Sym3& b) { return Sym3{a.x + b.x, a.y + b.y, a.z + b.z}; }
};
inline Sym dot(const Sym3& a, const Sym3& b) { return a.x * b.x + a.y * b.y + a.z * b.z; }
inline Sym length(const Sym3& a) { return sqrt(a.x * a.x + a.y * a.y + a.z * a.z); }
inline Sym distance(const Sym3& a, const Sym3& b) { return length(a - b); }

template <int N>
struct SymVec {
  Sym v[N];
  SymVec() {}
  SymVec(const Sym& s) { for (int i = 0; i < N; i++) v[i] = s; }
  SymVec(double c) { for (int i = 0; i < N; i++) v[i] = Sym(c); }
  SymVec(float c) { for (int i = 0; i < N; i++) v[i] = Sym(c); }
  SymVec(int c) { for (int i = 0; i < N; i++) v[i] = Sym(c); }
#define SHIM_BIN(OPNAME)                                                   \
  friend SymVec operator OPNAME(const SymVec& a, const SymVec& b) {        \
    SymVec r;                                                              \
    for (int i = 0; i < N; i++) r.v[i] = a.v[i] OPNAME b.v[i];             \
    return r;                                                              \
  }
  SHIM_BIN(+)
  SHIM_BIN(-)
  SHIM_BIN(*)
  SHIM_BIN(/)
#undef SHIM_BIN
  SymVec operator-() const {
    SymVec r;
    for (int i = 0; i < N; i++) r.v[i] = -v[i];
    return r;
  }
  SymVec& operator+=(const SymVec& o) { return *this = *this + o; }
  SymVec& operator-=(const SymVec& o) { return *this = *this - o; }
  SymVec& operator*=(const SymVec& o) { return *this = *this * o; }
  SymVec& operator/=(const SymVec& o) { return *this = *this / o; }
};
#define SHIM_FN(NAME)                                 \
  template <int N>                                    \
  inline SymVec<N> NAME(const SymVec<N>& a) {         \
    SymVec<N> r;                                      \
    for (int i = 0; i < N; i++) r.v[i] = NAME(a.v[i]); \
    return r;                                         \
  }
SHIM_FN(sqrt)
SHIM_FN(rsqrt)
SHIM_FN(cos)
SHIM_FN(sin)
SHIM_FN(exp)
SHIM_FN(native_sqrt)
SHIM_FN(native_rsqrt)
SHIM_FN(native_cos)
SHIM_FN(native_sin)
SHIM_FN(native_exp)
#undef SHIM_FN

typedef Sym2 float2;
typedef Sym2 double2;
typedef Sym3 float3;
typedef Sym3 double3;
typedef SymVec<4> float4;
typedef SymVec<4> double4;
typedef SymVec<8> float8;
typedef SymVec<8> double8;
typedef SymVec<16> float16;
typedef SymVec<16> double16;

namespace shim {
static void print_node(int id) {
  const Node& n = nodes[id];
  switch (n.op) {
    case VAR: printf("(var %s)", n.name.c_str()); break;
    case CONST: printf("(const %a)", n.c); break;
    case ADD: printf("(add "); print_node(n.a); printf(" "); print_node(n.b); printf(")"); break;
    case SUB: printf("(sub "); print_node(n.a); printf(" "); print_node(n.b); printf(")"); break;
    case MUL: printf("(mul "); print_node(n.a); printf(" "); print_node(n.b); printf(")"); break;
    case DIV: printf("(div "); print_node(n.a); printf(" "); print_node(n.b); printf(")"); break;
    case NEG: printf("(neg "); print_node(n.a); printf(")"); break;
    case FN: printf("(fn %s ", n.name.c_str()); print_node(n.a); printf(")"); break;
    case UNSET: printf("(unset)"); break;
  }
}
static void emit(const char* fname, const char* branch, int slot, int lane, const Sym& s) {
  if (!s.is_set()) return;
  printf("%s %s %d %d ", fname, branch, slot, lane);
  print_node(s.id);
  printf("\n");
}
static Sym3 var3(const std::string& p) { return Sym3{Sym::var(p + "0"), Sym::var(p + "1"), Sym::var(p + "2")}; }
template <int N>
static void varvec3(const std::string& p, SymVec<N> out[3]) {
  for (int c = 0; c < 3; c++)
    for (int l = 0; l < N; l++) out[c].v[l] = Sym::var(p + std::to_string(c) + "_" + std::to_string(l));
}
}  // namespace shim

#define float Sym
#define double Sym
#define __global
#define __local
#define __constant
#define __private
#endif
