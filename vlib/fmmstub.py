"""Enable the exact-summation exafmm stub (``vlib/exafmm_stub/exafmm``) for ``assembler="fmm"``.

Usage::

    from vlib import fmmstub
    fmmstub.enable()            # puts the stub on sys.path (idempotent), returns the stub package
    with fmmstub.scratch_cwd(): # ExafmmInterface creates ``.exafmm`` in the cwd: run inside a temp dir
        ...

``clear_caches()`` empties bempp's FMM interface caches (keyed by grid id / wavenumber).
"""

import contextlib
import os
import sys
import tempfile

STUB_PATH = os.path.join(os.path.dirname(os.path.abspath(__file__)), "exafmm_stub")


def enable():
    """Insert the stub path at the front of sys.path; return the imported stub package."""
    if STUB_PATH not in sys.path:
        sys.path.insert(0, STUB_PATH)
    import exafmm

    if not getattr(exafmm, "IS_VERIFICATION_STUB", False):
        raise RuntimeError("a real exafmm package shadows the verification stub: %r" % (exafmm,))
    return exafmm


@contextlib.contextmanager
def scratch_cwd():
    """Run the body in a fresh temporary directory (bempp writes ``.exafmm`` into the cwd)."""
    old = os.getcwd()
    with tempfile.TemporaryDirectory(prefix="c17fmm") as tmp:
        os.chdir(tmp)
        try:
            import bempp_cl.api.fmm.exafmm as mod

            saved = mod.FMM_TMP_DIR
            mod.FMM_TMP_DIR = None
        except Exception:  # bempp not importable yet
            mod = None
            saved = None
        try:
            yield tmp
        finally:
            if mod is not None:
                mod.FMM_TMP_DIR = saved
            os.chdir(old)


def clear_caches():
    """Clear bempp's FMM interface caches."""
    from bempp_cl.api.fmm import fmm_assembler

    fmm_assembler.clear_fmm_cache()
