"""Tie B for the assemblers: run the REAL assembly functions of bempp_cl/core/numba_kernels.py (their `.py_func`)
on a small generic configuration whose geometry, weights, multipliers and kernel values are symbols.

* `SymGrid` instantiates the undecorated class behind the `GridDataDouble` jitclass with object arrays of atoms, so the
  real `local2global` runs.
* `pyfuncs(module, ...)` temporarily replaces every Numba dispatcher that is a module global by its `py_func`
  (the assemblers call helpers such as `get_normals`, `elements_adjacent` through module globals).
* `KernelStub` stands for an arbitrary kernel: it returns one atom per distinct (test point, trial point, test normal,
  trial normal) tuple; the atoms are named through a registry that is shared by all traces of a run, so that the
  same geometric point gets the same name in the boundary and in the potential assembler.
"""
import contextlib

import numpy as np

from vlib import symtrace as st


def atoms(shape, fmt):
    a = np.empty(shape, dtype=object)
    for idx in np.ndindex(*shape):
        a[idx] = st.Sym.var(fmt.format(*idx))
    return a


class Registry:
    def __init__(self):
        self.ids = {}
        self.terms = []

    def id(self, obj):
        key = st.show(st.Sym.lift(obj).t) if not isinstance(obj, tuple) else obj
        if key not in self.ids:
            self.ids[key] = len(self.terms)
            self.terms.append(key)
        return self.ids[key]

    def point(self, col):
        return self.id(tuple(st.show(st.Sym.lift(c).t) for c in col))


class SymGrid:
    """Symbolic grid data.  `elements` is a concrete 3 x ne integer array (adjacency must be decidable)."""

    def __init__(self, tag, elements, nverts=None):
        from bempp_cl.api.grid import grid as gridmod
        cls = gridmod.GridDataDouble
        methods = getattr(getattr(cls, "class_type", None), "methods", None)
        if not methods or "local2global" not in methods or "__init__" not in methods:
            raise st.TraceError("cannot find the Python methods behind the GridDataDouble jitclass")
        pycls = type("PyGridData", (), dict(methods))  # the undecorated source of the jitclass
        E = np.asarray(elements, dtype=np.int64)
        ne = E.shape[1]
        nv = int(E.max()) + 1 if nverts is None else nverts
        self.tag = tag
        self.ne, self.nv = ne, nv
        self.data = pycls(
            atoms((3, nv), "V" + tag + "_{1}_{0}"),           # vertices[c, v]  -> V<tag>_<v>_<c>
            E,
            np.zeros((2, 0), dtype=np.int64),
            np.zeros((3, ne), dtype=np.int64),
            atoms((ne,), "vol" + tag + "_{0}"),
            atoms((ne, 3), "N" + tag + "_{0}_{1}"),
            atoms((ne, 3, 2), "J" + tag + "_{0}_{1}_{2}"),
            atoms((ne, 3, 2), "JIT" + tag + "_{0}_{1}_{2}"),
            atoms((ne,), "diam" + tag + "_{0}"),
            atoms((ne,), "ie" + tag + "_{0}"),
            atoms((3, ne), "cen" + tag + "_{1}_{0}"),
            np.zeros(ne, dtype=np.int64),
            np.zeros(nv, dtype=bool),
            np.zeros(0, dtype=np.int64),
            np.zeros(ne + 1, dtype=np.int64),
        )


@contextlib.contextmanager
def pyfuncs(*modules):
    """Replace Numba dispatchers among the globals of the given modules by their py_func."""
    saved = []
    try:
        for m in modules:
            for name, val in list(vars(m).items()):
                py = getattr(val, "py_func", None)
                if py is not None and callable(py):
                    saved.append((m, name, val))
                    setattr(m, name, py)
        yield
    finally:
        for m, name, val in saved:
            setattr(m, name, val)


class KernelStub:
    """Arbitrary scalar (or complex) kernel: value = atom K_<x>_<y>_<nx>_<ny> (ids from the registry)."""

    def __init__(self, reg, regular=True, name="K", complex_valued=False):
        self.reg, self.regular, self.name, self.cplx = reg, regular, name, complex_valued
        self.calls = 0

    def __call__(self, test_points, trial_points, test_normal, trial_normals, params):
        self.calls += 1
        tp = np.asarray(test_points, dtype=object)
        yp = np.asarray(trial_points, dtype=object)
        n = yp.shape[1]
        out = np.empty(n, dtype=object)
        nx = self.reg.point(list(np.asarray(test_normal, dtype=object).ravel()))
        for j in range(n):
            x = self.reg.point(list(tp[:, j] if tp.ndim == 2 else tp))
            y = self.reg.point(list(yp[:, j]))
            tn = np.asarray(trial_normals, dtype=object)
            ny = self.reg.point(list(tn[:, j] if tn.ndim == 2 else tn))
            if self.cplx:
                out[j] = st.CSym(st.Sym.var(f"{self.name}re_{x}_{y}_{nx}_{ny}"), st.Sym.var(f"{self.name}im_{x}_{y}_{nx}_{ny}"))
            else:
                out[j] = st.Sym.var(f"{self.name}_{x}_{y}_{nx}_{ny}")
        return out


def quad_rule(n, prefix="q"):
    """Symbolic regular rule with n points: local points (2,n) atoms <prefix>u_i / <prefix>v_i and weights <prefix>w_i."""
    pts = np.empty((2, n), dtype=object)
    w = np.empty(n, dtype=object)
    for i in range(n):
        pts[0, i] = st.Sym.var(f"{prefix}u_{i}")
        pts[1, i] = st.Sym.var(f"{prefix}v_{i}")
        w[i] = st.Sym.var(f"{prefix}w_{i}")
    return pts, w


def zeros(shape):
    a = np.empty(shape, dtype=object)
    for idx in np.ndindex(*shape) if shape else [()]:
        a[idx] = 0
    return a


def terms_of(arr):
    """Dict index -> term for every non-zero entry of an object array."""
    out = {}
    a = np.asarray(arr, dtype=object)
    for idx in np.ndindex(*a.shape):
        v = a[idx]
        if isinstance(v, st.CSym):
            out[idx] = (v.re.t, v.im.t)
        else:
            t = st.Sym.lift(v).t
            if t != ("const", 0):
                out[idx] = t
    return out
