"""Tie A: extraction of literal tables from /repo's *source text* with `ast` (no import of the
repository, so it works on a tree that no longer imports) and printing as Lean definitions.

Floats are converted to the exact value of the binary64 literal (integer at a fixed binary scale).
"""
import ast
import os
from fractions import Fraction

REPO = os.environ.get("BEMPP_REPO", "/repo")


class ExtractError(Exception):
    pass


def src(rel):
    with open(os.path.join(REPO, rel)) as f:
        return f.read()


def parse(rel):
    return ast.parse(src(rel), filename=rel)


def _lit(node):
    """Evaluate a literal expression: numbers, unary minus, lists/tuples, simple arithmetic of literals."""
    if isinstance(node, ast.Constant):
        return node.value
    if isinstance(node, ast.UnaryOp) and isinstance(node.op, ast.USub):
        return -_lit(node.operand)
    if isinstance(node, ast.UnaryOp) and isinstance(node.op, ast.UAdd):
        return _lit(node.operand)
    if isinstance(node, (ast.List, ast.Tuple)):
        return [_lit(e) for e in node.elts]
    if isinstance(node, ast.BinOp):
        a, b = _lit(node.left), _lit(node.right)
        if isinstance(node.op, ast.Add):
            return a + b
        if isinstance(node.op, ast.Sub):
            return a - b
        if isinstance(node.op, ast.Mult):
            return a * b
        if isinstance(node.op, ast.Div):
            return a / b
        if isinstance(node.op, ast.FloorDiv):
            return a // b
    if isinstance(node, ast.Call) and node.args:
        # _np.array([...]) / _np.array([...], dtype=...)
        return _lit(node.args[0])
    raise ExtractError(f"not a literal: {ast.dump(node)[:120]}")


def module_assign(tree, name):
    """Value node of the (last) module-level assignment `name = ...`."""
    found = None
    for st in tree.body:
        if isinstance(st, ast.Assign):
            for t in st.targets:
                if isinstance(t, ast.Name) and t.id == name:
                    found = st.value
    if found is None:
        raise ExtractError(f"no module-level assignment to {name}")
    return found


def module_literal(tree, name):
    return _lit(module_assign(tree, name))


def find_function(tree, name):
    for node in ast.walk(tree):
        if isinstance(node, (ast.FunctionDef,)) and node.name == name:
            return node
    raise ExtractError(f"no function {name}")


def float_to_scaled(x, scale_bits):
    """Exact integer x * 2**scale_bits of the binary64 value x (raises if not an integer)."""
    fr = Fraction(float(x)) * (1 << scale_bits)
    if fr.denominator != 1:
        raise ExtractError(f"value {x!r} not representable at scale 2^{scale_bits}")
    return fr.numerator


def lean_int(n):
    return str(n) if n >= 0 else f"({n})"


def lean_int_array(name, values, per_line=8, typ="Int"):
    out = [f"def {name} : Array {typ} := #["]
    line = []
    for i, v in enumerate(values):
        line.append(lean_int(v))
        if len(line) == per_line:
            out.append("  " + ", ".join(line) + ("," if i + 1 < len(values) else ""))
            line = []
    if line:
        out.append("  " + ", ".join(line))
    out.append("]")
    return "\n".join(out)


def write_if_changed(path, content):
    os.makedirs(os.path.dirname(path), exist_ok=True)
    try:
        with open(path) as f:
            if f.read() == content:
                return False
    except FileNotFoundError:
        pass
    tmp = path + ".tmp%d" % os.getpid()
    with open(tmp, "w") as f:
        f.write(content)
    os.replace(tmp, path)
    return True
