"""Tie B: symbolic tracing of the real Python source.

`Sym` objects record every arithmetic operation applied to them.  Numba dispatchers are run through their
undecorated `.py_func` on `dtype=object` NumPy arrays of `Sym`s, so what is traced is the source text of /repo itself.
Terms are nested tuples:
    ('var', name) ('const', Fraction) ('add', a, b) ('sub', a, b) ('mul', a, b) ('div', a, b) ('neg', a)
    ('pow', a, n:int) ('fn', name, a)          with name in sqrt cos sin exp
The only simplifications are the ones needed to absorb NumPy's zero/one initialisation: 0+x, x+0, x-0, 0*x, 1*x, x*1, x/1.
"""
from fractions import Fraction
import numbers

FUNS = ("sqrt", "cos", "sin", "exp")


class TraceError(Exception):
    pass


class BranchOnSymbol(TraceError):
    """The traced code compared a symbolic value; the tracer needs a decision for it."""


def _const(x):
    if isinstance(x, bool):
        raise TraceError("bool in arithmetic")
    if isinstance(x, numbers.Integral):
        return ("const", Fraction(int(x)))
    if isinstance(x, numbers.Real):
        return ("const", Fraction(float(x)))
    if isinstance(x, Fraction):
        return ("const", x)
    raise TraceError(f"cannot lift {type(x)}")


def _is_array(x):
    return type(x).__module__ == "numpy" and type(x).__name__ == "ndarray"


def _is_const(t, v=None):
    return t[0] == "const" and (v is None or t[1] == v)


ASSUMED = []  # log of default assumptions taken for comparisons of non-variable symbolic values with 0


class Sym:
    __slots__ = ("t", "assume")
    default_assume = None  # set to 'nonzero' to let `expr == 0` be False for every symbolic expr

    def __init__(self, t, assume=None):
        self.t = t
        self.assume = assume  # None | 'nonzero' | 'zero'  (decision for comparisons with 0)

    # -- construction helpers
    @staticmethod
    def var(name, assume=None):
        return Sym(("var", name), assume)

    @staticmethod
    def lift(x):
        if isinstance(x, Sym):
            return x
        if isinstance(x, CSym):
            raise TraceError("complex where real expected")
        return Sym(_const(x))

    def _bin(self, other, op, swap=False):
        if isinstance(other, CSym):
            return NotImplemented
        if isinstance(other, complex):
            return getattr(CSym(self, Sym.lift(0)), {"add": "__add__", "sub": "__sub__", "mul": "__mul__",
                                                     "div": "__truediv__"}[op])(other) if not swap else NotImplemented
        try:
            o = Sym.lift(other)
        except TraceError:
            return NotImplemented
        a, b = (o.t, self.t) if swap else (self.t, o.t)
        if op == "add":
            if _is_const(a, 0):
                return Sym(b)
            if _is_const(b, 0):
                return Sym(a)
        if op == "sub" and _is_const(b, 0):
            return Sym(a)
        if op == "mul":
            if _is_const(a, 0) or _is_const(b, 0):
                return Sym(("const", Fraction(0)))
            if _is_const(a, 1):
                return Sym(b)
            if _is_const(b, 1):
                return Sym(a)
        if op == "div" and _is_const(b, 1):
            return Sym(a)
        if a[0] == "const" and b[0] == "const" and op != "div":
            v = {"add": a[1] + b[1], "sub": a[1] - b[1], "mul": a[1] * b[1]}[op]
            return Sym(("const", v))
        return Sym((op, a, b))

    def __add__(self, o): return self._bin(o, "add")
    def __radd__(self, o): return self._bin(o, "add", True)
    def __sub__(self, o): return self._bin(o, "sub")
    def __rsub__(self, o): return self._bin(o, "sub", True)
    def __mul__(self, o): return self._bin(o, "mul")
    def __rmul__(self, o):
        if isinstance(o, complex):
            return CSym(Sym.lift(o.real) * self, Sym.lift(o.imag) * self)
        return self._bin(o, "mul", True)
    def __truediv__(self, o): return self._bin(o, "div")
    def __rtruediv__(self, o): return self._bin(o, "div", True)

    def __neg__(self):
        if self.t[0] == "const":
            return Sym(("const", -self.t[1]))
        return Sym(("neg", self.t))

    def __pos__(self): return self

    def __pow__(self, n):
        if isinstance(n, Sym) and n.t[0] == "const" and n.t[1].denominator == 1:
            n = int(n.t[1])
        if isinstance(n, float) and n == int(n):
            n = int(n)
        if not isinstance(n, numbers.Integral) or n < 0:
            raise TraceError(f"unsupported power {n!r}")
        return Sym(("pow", self.t, int(n)))

    def _fn(self, name):
        return Sym(("fn", name, self.t))

    def sqrt(self): return self._fn("sqrt")
    def cos(self): return self._fn("cos")
    def sin(self): return self._fn("sin")
    def exp(self): return self._fn("exp")

    def conjugate(self): return self
    conj = conjugate

    @property
    def real(self): return self
    @property
    def imag(self): return Sym.lift(0)

    # comparisons: only against 0, decided by the assumption attached to a variable
    def _cmp0(self, other):
        if isinstance(other, Sym):
            if other.t[0] == "const":
                other = other.t[1]
            else:
                raise BranchOnSymbol(f"comparison of two symbols {self.t} {other.t}")
        if self.t[0] == "const":
            return self.t[1], other
        if other != 0:
            raise BranchOnSymbol(f"comparison of {self.t} with {other}")
        if self.assume is None:
            if Sym.default_assume is None:
                raise BranchOnSymbol(f"branch on {self.t} without an assumption")
            ASSUMED.append((show(self.t)[:80], Sym.default_assume))
        return None, None

    def _assumption(self):
        return self.assume if self.assume is not None else Sym.default_assume

    def __ne__(self, other):
        a, b = self._cmp0(other)
        if a is not None:
            return a != b
        return self._assumption() == "nonzero"

    def __eq__(self, other):
        a, b = self._cmp0(other)
        if a is not None:
            return a == b
        return self._assumption() == "zero"

    __hash__ = None

    def __bool__(self):
        raise BranchOnSymbol(f"truth value of {self.t}")

    def __float__(self):
        if self.t[0] == "const":
            return float(self.t[1])
        raise TraceError(f"float() of symbolic {self.t}")

    def __repr__(self):
        return f"Sym({show(self.t)})"


class CSym:
    """Complex value with symbolic real and imaginary part."""
    __slots__ = ("re", "im")

    def __init__(self, re, im):
        self.re, self.im = Sym.lift(re), Sym.lift(im)

    @staticmethod
    def lift(x):
        if isinstance(x, CSym):
            return x
        if isinstance(x, complex):
            return CSym(x.real, x.imag)
        return CSym(Sym.lift(x), 0)

    # `scalar (op) ndarray` must broadcast: defer to NumPy's reflected operator (element-wise on object arrays)
    __array_priority__ = -1.0

    def __add__(self, o):
        if _is_array(o):
            return NotImplemented
        o = CSym.lift(o)
        return CSym(self.re + o.re, self.im + o.im)
    __radd__ = __add__

    def __sub__(self, o):
        if _is_array(o):
            return NotImplemented
        o = CSym.lift(o)
        return CSym(self.re - o.re, self.im - o.im)

    def __rsub__(self, o):
        return CSym.lift(o) - self

    def __mul__(self, o):
        if _is_array(o):
            return NotImplemented
        o = CSym.lift(o)
        return CSym(self.re * o.re - self.im * o.im, self.re * o.im + self.im * o.re)
    __rmul__ = __mul__

    def __truediv__(self, o):
        if _is_array(o):
            return NotImplemented
        if isinstance(o, (Sym, numbers.Real)):
            return CSym(self.re / o, self.im / o)
        o = CSym.lift(o)
        d = o.re * o.re + o.im * o.im
        return CSym((self.re * o.re + self.im * o.im) / d, (self.im * o.re - self.re * o.im) / d)

    def __rtruediv__(self, o):
        return CSym.lift(o) / self

    def __neg__(self): return CSym(-self.re, -self.im)

    def conjugate(self): return CSym(self.re, -self.im)
    conj = conjugate

    @property
    def real(self): return self.re
    @property
    def imag(self): return self.im

    def exp(self):
        e = self.re.exp()
        return CSym(e * self.im.cos(), e * self.im.sin())

    def __repr__(self):
        return f"CSym({show(self.re.t)}, {show(self.im.t)})"


def parts(x):
    """(re, im) terms of a traced scalar (numbers allowed)."""
    if isinstance(x, CSym):
        return x.re.t, x.im.t
    if isinstance(x, complex):
        return _const(x.real), _const(x.imag)
    return Sym.lift(x).t, ("const", Fraction(0))


def show(t):
    k = t[0]
    if k == "var":
        return t[1]
    if k == "const":
        return str(t[1])
    if k in ("add", "sub", "mul", "div"):
        return "(" + show(t[1]) + {"add": " + ", "sub": " - ", "mul": " * ", "div": " / "}[k] + show(t[2]) + ")"
    if k == "neg":
        return "(-" + show(t[1]) + ")"
    if k == "pow":
        return show(t[1]) + "^" + str(t[2])
    if k == "fn":
        return t[1] + "(" + show(t[2]) + ")"
    raise TraceError(k)


def to_lean(t):
    """Lean term over a field K (functions sqrt cos sin exp are variables in scope)."""
    k = t[0]
    if k == "var":
        return t[1]
    if k == "const":
        q = t[1]
        if q.denominator == 1:
            return f"({q.numerator} : K)" if q >= 0 else f"(-{-q.numerator} : K)"
        s = f"(({abs(q.numerator)} : K) / {q.denominator})"
        return s if q >= 0 else f"(-{s})"
    if k in ("add", "sub", "mul", "div"):
        return "(" + to_lean(t[1]) + {"add": " + ", "sub": " - ", "mul": " * ", "div": " / "}[k] + to_lean(t[2]) + ")"
    if k == "neg":
        return "(-" + to_lean(t[1]) + ")"
    if k == "pow":
        return "(" + to_lean(t[1]) + " ^ " + str(t[2]) + ")"
    if k == "fn":
        return "(" + t[1] + " " + to_lean(t[2]) + ")"
    raise TraceError(k)


def free_vars(t, acc=None):
    acc = set() if acc is None else acc
    if t[0] == "var":
        acc.add(t[1])
    elif t[0] in ("add", "sub", "mul", "div"):
        free_vars(t[1], acc)
        free_vars(t[2], acc)
    elif t[0] in ("neg", "pow"):
        free_vars(t[1], acc)
    elif t[0] == "fn":
        acc.add("@" + t[1])
        free_vars(t[2], acc)
    return acc


def evaluate(t, env, funs=None):
    """Numeric evaluation (float / complex / Fraction) for cross-checks."""
    import math
    funs = funs or {"sqrt": math.sqrt, "cos": math.cos, "sin": math.sin, "exp": math.exp}
    k = t[0]
    if k == "var":
        return env[t[1]]
    if k == "const":
        return float(t[1])
    if k == "add":
        return evaluate(t[1], env, funs) + evaluate(t[2], env, funs)
    if k == "sub":
        return evaluate(t[1], env, funs) - evaluate(t[2], env, funs)
    if k == "mul":
        return evaluate(t[1], env, funs) * evaluate(t[2], env, funs)
    if k == "div":
        return evaluate(t[1], env, funs) / evaluate(t[2], env, funs)
    if k == "neg":
        return -evaluate(t[1], env, funs)
    if k == "pow":
        return evaluate(t[1], env, funs) ** t[2]
    if k == "fn":
        return funs[t[1]](evaluate(t[2], env, funs))
    raise TraceError(k)


def parse_sexpr(s):
    """Parse the prefix S-expressions printed by the C++ shim: (add a b) (var name) (const p/q) (fn sqrt a) (pow a n)."""
    toks = s.replace("(", " ( ").replace(")", " ) ").split()
    pos = 0

    def rd():
        nonlocal pos
        tok = toks[pos]
        pos += 1
        if tok != "(":
            raise TraceError(f"unexpected token {tok}")
        head = toks[pos]
        pos += 1
        if head == "var":
            name = toks[pos]
            pos += 1
            out = ("var", name)
        elif head == "const":
            out = ("const", Fraction(toks[pos]))
            pos += 1
        elif head in ("add", "sub", "mul", "div"):
            a = rd()
            b = rd()
            out = (head, a, b)
        elif head == "neg":
            out = ("neg", rd())
        elif head == "pow":
            a = rd()
            out = ("pow", a, int(toks[pos]))
            pos += 1
        elif head == "fn":
            name = toks[pos]
            pos += 1
            out = ("fn", name, rd())
        else:
            raise TraceError(f"unknown head {head}")
        if toks[pos] != ")":
            raise TraceError("missing )")
        pos += 1
        return out

    t = rd()
    if pos != len(toks):
        raise TraceError("trailing tokens")
    return t
