"""Common check pipeline: regenerate -> lake build -> axiom audit -> correspondence -> oracle -> verdict.

A property module (props/cNN.py) defines
    PID              "C12"
    LEAN_MODULES     ["BemppVerif.Props.C12"]            modules whose elaboration is the proof check
    THEOREMS         ["BemppVerif.C12.tri_exact", ...]   obligations (fully qualified names)
    PARTIAL          {theorem: "what is missing"}        optional
    TRUSTED          [...]                               extra trusted-base lines
    def generate(ctx)        -> dict (info about regenerated Gen files); may raise GenError
    def correspondence(ctx)  -> Result
    def oracle(ctx)          -> Result
    def search(ctx, broken)  -> Result    (failing-input search when a proof / the correspondence broke)
"""
import fcntl
import json
import os
import random
import re
import subprocess
import sys
import time

ROOT = os.path.dirname(os.path.dirname(os.path.abspath(__file__)))
LEAN = os.path.join(ROOT, "lean")
REPO = os.environ.get("BEMPP_REPO", "/repo")
if os.environ.get("BEMPP_REPO") and not os.environ.get("VERIF_SHARED_LEAN"):
    # a run against a scratch tree (seeded changes) regenerates Gen/*.lean from THAT tree: give it its own copy of the
    # Lean project (with the compiled .lake, so only what changed is rebuilt) instead of racing with checks on /repo
    _scratch = os.environ.get("VERIF_LEAN_DIR") or "/tmp/verif-lean-" + re.sub(r"[^A-Za-z0-9]+", "_", os.environ["BEMPP_REPO"]).strip("_")
    if not os.path.isdir(_scratch):
        subprocess.run(["rsync", "-a", "--exclude", ".lake-verif-lock", LEAN + "/", _scratch + "/"], check=True)
    LEAN = _scratch
ALLOWED_AXIOMS = {"propext", "Classical.choice", "Quot.sound"}
FORBIDDEN = re.compile(
    r"\bsorry\b|\badmit\b|^\s*axiom\s|native_decide|bv_decide|implemented_by|\bunsafe\s|maxHeartbeats\s+0\b|\bextern\b"
)
BASE_TRUSTED = [
    "Lean 4.33.0 kernel (thorough tier re-checks the compiled modules with leanchecker)",
    "axioms allowed: propext, Classical.choice, Quot.sound (audited with #print axioms on every obligation)",
    "no native_decide / bv_decide / axiom / sorry / implemented_by / unsafe (grep audit of lean/BemppVerif on every run)",
    "Mathlib v4.33.0 where a proof file imports single modules of it",
    "the translators / correspondence harness in /verif/vlib and /verif/props (Python), CPython, NumPy",
    "IEEE-754 rounding of the implementation is not modelled: real-number theorems are about exact arithmetic",
]


class GenError(Exception):
    """The translator could not extract what it needs from the source (counts as a broken tie)."""


class Result:
    """Outcome of a correspondence / oracle / search run."""

    def __init__(self):
        self.evaluations = 0
        self.nontrivial = set()
        self.samples = []
        self.disagreements = []  # model vs. implementation (not by themselves violations)
        self.counterexamples = []  # concrete inputs on which the REAL code breaks the property
        self.stats = {}
        self.notes = []

    def case(self, key=None, nontrivial=False, sample=None):
        self.evaluations += 1
        if nontrivial and key is not None:
            self.nontrivial.add(key if isinstance(key, (str, int)) else json.dumps(key, sort_keys=True, default=str))
        if sample is not None and len(self.samples) < 6:
            self.samples.append(sample)

    def count(self, name, n=1):
        self.stats[name] = self.stats.get(name, 0) + n

    def disagree(self, what, **detail):
        self.disagreements.append(dict(what=what, **detail))

    def counterexample(self, key, what, **detail):
        """key identifies the failing input / call site for known_findings matching."""
        self.counterexamples.append(dict(key=key, what=what, **detail))

    def merge(self, other):
        self.evaluations += other.evaluations
        self.nontrivial |= other.nontrivial
        for s in other.samples:
            if len(self.samples) < 8:
                self.samples.append(s)
        self.disagreements += other.disagreements
        self.counterexamples += other.counterexamples
        for k, v in other.stats.items():
            if isinstance(v, (int, float)) and isinstance(self.stats.get(k, 0), (int, float)):
                self.stats[k] = self.stats.get(k, 0) + v
            else:
                self.stats[k] = v
        self.notes += other.notes
        return self


def _clean(s):
    return "\n".join(l for l in s.splitlines() if "conda.cli.condarc" not in l)


def run(cmd, cwd=None, timeout=None, env=None, input=None):
    e = dict(os.environ)
    if env:
        e.update(env)
    p = subprocess.run(cmd, cwd=cwd, timeout=timeout, env=e, input=input, capture_output=True, text=True)
    return p.returncode, _clean(p.stdout), _clean(p.stderr)


class LakeLock:
    def __enter__(self):
        self.f = open(os.path.join(LEAN, ".lake-verif-lock"), "w")
        fcntl.flock(self.f, fcntl.LOCK_EX)
        return self

    def __exit__(self, *a):
        fcntl.flock(self.f, fcntl.LOCK_UN)
        self.f.close()


def lake_build(targets, timeout=3000):
    with LakeLock():
        rc, out, err = run(["lake", "build"] + list(targets), cwd=LEAN, timeout=timeout)
    return rc, out + "\n" + err


_ERR = re.compile(r"^error: (\S+?\.lean):(\d+):(\d+): (.*)$")


def parse_lean_errors(text):
    errs = []
    for line in text.splitlines():
        m = _ERR.match(line.strip())
        if m:
            errs.append(dict(file=m.group(1), line=int(m.group(2)), msg=m.group(4)[:300]))
    return errs


_DECL = re.compile(r"^\s*(?:@\[[^\]]*\]\s*)?(?:private\s+|protected\s+)?(theorem|lemma|def|example|instance|abbrev)\s+([^\s:({\[]+)?")


def decl_at(path, line):
    """Name of the declaration enclosing `line` of a Lean file (best effort)."""
    try:
        with open(os.path.join(LEAN, path)) as f:
            lines = f.read().splitlines()
    except OSError:
        return None
    for i in range(min(line, len(lines)) - 1, -1, -1):
        m = _DECL.match(lines[i])
        if m:
            return m.group(2) or "example"
    return None


def driver_path():
    return os.path.join(LEAN, ".lake", "build", "bin", "driver")


def build_driver():
    rc, out = lake_build(["driver"])
    if rc != 0:
        raise RuntimeError("driver build failed:\n" + out[-3000:])
    return driver_path()


def run_driver(lines, timeout=1200):
    """Send request lines to the native Lean model driver; return the answer lines."""
    exe = driver_path()
    if not os.path.exists(exe):
        build_driver()
    p = subprocess.run([exe], input="\n".join(lines) + "\n", capture_output=True, text=True, timeout=timeout)
    if p.returncode != 0:
        raise RuntimeError(f"driver exited {p.returncode}: {p.stderr[-2000:]}")
    out = p.stdout.splitlines()
    if len(out) != len(lines):
        raise RuntimeError(f"driver answered {len(out)} lines for {len(lines)} requests; tail: {out[-3:]}")
    return out


def grep_forbidden():
    hits = []
    for base, _, files in os.walk(os.path.join(LEAN, "BemppVerif")):
        for fn in files:
            if not fn.endswith(".lean"):
                continue
            p = os.path.join(base, fn)
            in_block = 0
            with open(p) as f:
                for n, line in enumerate(f, 1):
                    s = line
                    # strip block comments (coarse but sufficient: we never nest them across code)
                    out = ""
                    i = 0
                    while i < len(s):
                        if s.startswith("/-", i):
                            in_block += 1
                            i += 2
                        elif s.startswith("-/", i) and in_block:
                            in_block -= 1
                            i += 2
                        elif in_block:
                            i += 1
                        elif s.startswith("--", i):
                            break
                        else:
                            out += s[i]
                            i += 1
                    if FORBIDDEN.search(out):
                        hits.append(f"{os.path.relpath(p, LEAN)}:{n}: {out.strip()[:100]}")
    return hits


def _run_audit_file(pid, text, timeout):
    path = os.path.join(LEAN, f".audit_{pid}_{os.getpid()}.lean")
    with open(path, "w") as f:
        f.write(text)
    try:
        with LakeLock():
            rc, out, err = run(["lake", "env", "lean", os.path.basename(path)], cwd=LEAN, timeout=timeout)
    finally:
        os.unlink(path)
    return rc, out + "\n" + err


def _olean_fingerprint():
    import hashlib
    h = hashlib.sha256()
    base = os.path.join(LEAN, ".lake", "build", "lib", "lean")
    for root, _, files in sorted(os.walk(base)):
        for fn in sorted(files):
            if fn.endswith(".olean"):
                p = os.path.join(root, fn)
                h.update(os.path.relpath(p, base).encode())
                with open(p, "rb") as f:
                    h.update(hashlib.sha256(f.read()).digest())
    return h.hexdigest()


def audit_axioms(pid, modules, theorems, timeout=3000):
    """Cached wrapper: the result of the audit is a function of the compiled modules (all .olean files of the project)
    and of the list of obligations, so it is memoised under that key in lean/.lake/verif_audit_cache.json."""
    import hashlib
    cache_path = os.path.join(LEAN, ".lake", "verif_audit_cache.json")
    try:
        key = hashlib.sha256((_olean_fingerprint() + "|" + "|".join(modules) + "|" + "|".join(theorems)).encode()).hexdigest()
        with open(cache_path) as f:
            cache = json.load(f)
    except (OSError, ValueError):
        cache = {}
        key = None if "key" not in dir() else key
    if key and key in cache:
        return cache[key], "cached axiom audit (compiled modules unchanged)"
    res, text = _audit_axioms_uncached(pid, modules, theorems, timeout)
    if key and all(v is not None for v in res.values()):
        cache = {k: v for k, v in list(cache.items())[-40:]}
        cache[key] = res
        try:
            write_json(cache_path, cache)
        except OSError:
            pass
    return res, text


def _audit_axioms_uncached(pid, modules, theorems, timeout=3000):
    """Axioms of every obligation.  Fast path: ONE `#print axioms` on an aggregate theorem whose proof term mentions
    every obligation (the union of their axioms; a subset of the allowed set for the union is one for each member).
    Fallback (some name missing, or a foreign axiom in the union): one `#print axioms` per obligation."""
    imports = "".join(f"import {m}\n" for m in modules)
    agg = imports + "theorem verif_audit_all : True := by\n" + "".join(
        f"  have h{i} := @{t}\n" for i, t in enumerate(theorems)) + "  trivial\n#print axioms verif_audit_all\n"
    rc, text = _run_audit_file(pid, agg, timeout)
    flat = re.sub(r"\s+", " ", text)
    m = re.search(r"'verif_audit_all' depends on axioms: \[([^\]]*)\]", flat)
    none = re.search(r"'verif_audit_all' does not depend on any axioms", flat)
    if rc == 0 and (m or none):
        union = [a.strip() for a in m.group(1).split(",") if a.strip()] if m else []
        if set(union) <= ALLOWED_AXIOMS:
            return {t: union for t in theorems}, text
    per = imports + "".join(f"#print axioms {t}\n" for t in theorems)
    rc, text = _run_audit_file(pid, per, timeout)
    res = {}
    flat = re.sub(r"\s+", " ", text)
    for t in theorems:
        m = re.search(r"'" + re.escape(t) + r"' depends on axioms: \[([^\]]*)\]", flat)
        if m:
            res[t] = [a.strip() for a in m.group(1).split(",") if a.strip()]
        elif re.search(r"'" + re.escape(t) + r"' does not depend on any axioms", flat):
            res[t] = []
        else:
            res[t] = None
    return res, text


def load_findings():
    p = os.path.join(ROOT, "known_findings.json")
    try:
        with open(p) as f:
            return json.load(f)
    except FileNotFoundError:
        return []


class Ctx:
    def __init__(self, pid, tier, seed, replay=None):
        self.pid = pid
        self.tier = tier
        self.seed = seed
        self.rng = random.Random(seed * 1000003 + sum(map(ord, pid)))
        self.t0 = time.time()
        self.replay = replay
        self.thorough = tier == "thorough"
        self.log_lines = []

    def log(self, *a):
        s = " ".join(str(x) for x in a)
        self.log_lines.append(s)
        print(f"[{self.pid} {time.time() - self.t0:6.1f}s] {s}", flush=True)

    def pick(self, quick, thorough):
        return thorough if self.thorough else quick


def write_json(path, obj):
    os.makedirs(os.path.dirname(path), exist_ok=True)
    tmp = path + ".tmp"
    with open(tmp, "w") as f:
        json.dump(obj, f, indent=1, default=str)
        f.write("\n")
    os.replace(tmp, path)


def main_pipeline(mod, ctx):
    pid = mod.PID
    findings = [f for f in load_findings() if f.get("property") == pid and f.get("kind") == "finding"]
    broken = []  # list of dicts describing broken proof obligations / ties
    gen_info = {}
    # 1. regenerate
    try:
        gen_info = mod.generate(ctx) or {}
    except GenError as e:
        broken.append(dict(kind="translator", what=str(e)))
        ctx.log("translator failed:", e)
    except Exception as e:  # noqa  the translator could not follow the source (e.g. an operation it cannot trace)
        import traceback
        broken.append(dict(kind="translator", what=f"{type(e).__name__}: {e}", traceback=traceback.format_exc()[-1500:]))
        ctx.log("translator failed:", type(e).__name__, e)
    # 2. build
    theorems = list(mod.THEOREMS)
    failed = {}
    rc, out = lake_build(mod.LEAN_MODULES)
    errs = parse_lean_errors(out)
    if rc != 0:
        ctx.log(f"lake build failed ({len(errs)} errors)")
        short = {t.split(".")[-1]: t for t in theorems}
        hit = False
        for e in errs:
            d = decl_at(e["file"], e["line"])
            e["decl"] = d
            for sn, full in short.items():
                if d and (d == sn or d.endswith("." + sn) or full.endswith("." + d)):
                    failed.setdefault(full, []).append(e)
                    hit = True
        if not hit:
            for t in theorems:
                failed.setdefault(t, []).append(dict(msg="build of a dependency failed", errors=errs[:5]))
        # theorems stated in modules that import a failed module are not checked either
        for e in errs:
            broken.append(dict(kind="lean-error", **e))
        if not errs:
            broken.append(dict(kind="lean-build", what=out[-1500:]))
    else:
        ctx.log(f"lake build ok: {' '.join(mod.LEAN_MODULES)}")
    # 3. audit
    axioms = {}
    forb = grep_forbidden()
    if forb:
        broken.append(dict(kind="forbidden-token", hits=forb[:10]))
    if rc == 0:
        axioms, raw = audit_axioms(pid, mod.LEAN_MODULES, theorems)
        for t, ax in axioms.items():
            if ax is None:
                failed.setdefault(t, []).append(dict(msg="theorem not found by #print axioms"))
                broken.append(dict(kind="missing-theorem", theorem=t))
            elif not set(ax) <= ALLOWED_AXIOMS and not all(a in ALLOWED_AXIOMS for a in ax):
                failed.setdefault(t, []).append(dict(msg=f"axioms {ax}"))
                broken.append(dict(kind="axiom", theorem=t, axioms=ax))
        ctx.log(f"axiom audit: {sum(1 for a in axioms.values() if a is not None)}/{len(theorems)} found")
        if ctx.thorough and not broken and getattr(mod, "LEANCHECKER", True):
            with LakeLock():
                rc2, o2, e2 = run(["lake", "env", "leanchecker"] + list(mod.LEAN_MODULES), cwd=LEAN, timeout=3000)
            if rc2 != 0:
                broken.append(dict(kind="leanchecker", what=(o2 + e2)[-1500:]))
            ctx.log(f"leanchecker rc={rc2}")
    discharged = [t for t in theorems if t not in failed]
    # 4. correspondence
    res = Result()
    try:
        cres = mod.correspondence(ctx)
    except GenError as e:
        cres = Result()
        cres.disagree("correspondence harness could not run", error=str(e))
    except Exception as e:  # noqa  on the unchanged tree the harness runs through: an exception means the tie broke
        import traceback
        cres = Result()
        cres.disagree("correspondence harness raised", error=f"{type(e).__name__}: {e}", traceback=traceback.format_exc()[-1500:])
    res.merge(cres)
    for d in cres.disagreements:
        broken.append(dict(kind="correspondence", **d))
    ctx.log(f"correspondence: {cres.evaluations} cases, {len(cres.disagreements)} disagreements")
    # 5. oracle
    try:
        ores = mod.oracle(ctx)
    except Exception as e:  # noqa  the real code raised on an input the oracle considers legal
        import traceback
        ores = Result()
        broken.append(dict(kind="oracle-exception", what=f"{type(e).__name__}: {e}", traceback=traceback.format_exc()[-1500:]))
    res.merge(ores)
    ctx.log(f"oracle: {ores.evaluations} cases, {len(ores.counterexamples)} counterexamples")
    # 6. failing-input search if anything broke
    if broken and hasattr(mod, "search"):
        ctx.log(f"{len(broken)} broken obligations/ties -> searching for a failing input")
        try:
            sres = mod.search(ctx, broken)
            res.merge(sres)
        except Exception as e:  # noqa
            import traceback
            broken.append(dict(kind="search-exception", what=f"{type(e).__name__}: {e}", traceback=traceback.format_exc()[-1500:]))
    # verdict
    known_hits, new_cex = [], []
    for c in res.counterexamples:
        k = next((f for f in findings if f["key"] == c["key"]), None)
        (known_hits if k else new_cex).append((c, k))
    printed = set()
    for c, k in known_hits:
        if k["key"] not in printed:
            printed.add(k["key"])
            print(f"KNOWN-FINDING: property={pid} {k['what']}")
    # broken obligations explained by a known finding?  Only concrete counterexamples are matched; a
    # broken proof is never suppressed.
    violations = 0
    rdir = os.path.join(ROOT, "replays")
    os.makedirs(rdir, exist_ok=True)
    lines = []
    if new_cex:
        seen = set()
        for c, _ in new_cex:
            if c["key"] in seen:
                continue
            seen.add(c["key"])
            violations += 1
            path = os.path.join(rdir, f"{pid}-{ctx.tier}-{ctx.seed}-{violations}.json")
            reserved = ("property", "kind", "seed", "tier", "broken")
            body = {(("case_" + k) if k in reserved else k): v for k, v in c.items()}  # an oracle may use these names itself
            write_json(path, dict(property=pid, kind="counterexample", seed=ctx.seed, tier=ctx.tier, **body,
                                  broken=broken[:10]))
            lines.append(f"VIOLATION property={pid} replay={path}")
    elif broken:
        violations += 1
        path = os.path.join(rdir, f"{pid}-{ctx.tier}-{ctx.seed}-broken.json")
        write_json(path, dict(property=pid, kind="broken-obligation", seed=ctx.seed, tier=ctx.tier,
                              failed_theorems=sorted(failed), broken=broken[:40]))
        lines.append(f"VIOLATION property={pid} replay={path} no-failing-input-found")
    wall = time.time() - ctx.t0
    ev = {
        "property_id": pid,
        "tier": ctx.tier,
        "seed": ctx.seed,
        "level": "proof",
        "coverage": {
            "obligations": len(theorems),
            "discharged": len(discharged),
            "checker_cmd": f"cd lean && lake build {' '.join(mod.LEAN_MODULES)} && lake env lean <#print axioms of every obligation>"
            + (" && lake env leanchecker " + " ".join(mod.LEAN_MODULES) if ctx.thorough else ""),
            "trusted_base": BASE_TRUSTED + list(getattr(mod, "TRUSTED", [])),
            "theorems": theorems,
            "failed_theorems": sorted(failed),
            "axioms": {t: a for t, a in axioms.items()},
            "partial": getattr(mod, "PARTIAL", {}),
            "generated": gen_info,
            "evaluations": res.evaluations,
            "distinct_nontrivial": len(res.nontrivial),
            "rule": getattr(mod, "RULE", ""),
            "samples": res.samples or [dict(note="no correspondence sample recorded")],
            "stats": res.stats,
            "disagreements": res.disagreements[:10],
            "known_findings_hit": sorted(printed),
            "notes": res.notes[:20],
        },
        "assumptions": list(getattr(mod, "ASSUMPTIONS", [])),
        "wall_s": round(wall, 2),
        "violations": violations,
    }
    # evidence/ always describes /repo itself: a run against a scratch tree (BEMPP_REPO, used for seeded changes)
    # writes next to the replays instead
    evdir = os.path.join(ROOT, "replays", "scratch-evidence") if os.environ.get("BEMPP_REPO") else os.path.join(ROOT, "evidence")
    os.makedirs(evdir, exist_ok=True)
    write_json(os.path.join(evdir, f"{pid}.json"), ev)
    for l in lines:
        print(l)
    ctx.log(f"done: obligations {len(discharged)}/{len(theorems)}, cases {res.evaluations}, "
            f"nontrivial {len(res.nontrivial)}, violations {violations}, wall {wall:.1f}s")
    return 1 if violations else 0


def default_replay(mod, ctx, path):
    """Re-run the failing-input search and report whether the recorded failing input still fails."""
    with open(path) as f:
        rep = json.load(f)
    if rep.get("kind") == "broken-obligation":
        rc = main_pipeline(mod, ctx)
        return rc
    try:
        mod.generate(ctx)
    except GenError:
        pass
    res = Result()
    res.merge(mod.oracle(ctx))
    if hasattr(mod, "search"):
        res.merge(mod.search(ctx, [dict(kind="replay", key=rep.get("key"))]))
    hit = [c for c in res.counterexamples if c["key"] == rep.get("key")]
    if hit:
        print(f"REPLAY property={mod.PID} key={rep.get('key')} still fails: {hit[0]['what']}")
        print(f"VIOLATION property={mod.PID} replay={path}")
        return 1
    print(f"REPLAY property={mod.PID} key={rep.get('key')} no longer fails")
    return 0
