"""Entry point: ./check <id> [--tier quick|thorough] [--replay file]."""
import argparse
import importlib
import os
import sys
import traceback

from . import common


def main():
    ap = argparse.ArgumentParser()
    ap.add_argument("pid")
    ap.add_argument("--tier", default=os.environ.get("VERIF_TIER", "quick"), choices=["quick", "thorough"])
    ap.add_argument("--replay", default=None)
    a = ap.parse_args()
    try:
        seed = int(os.environ.get("VERIF_SEED", "0"))
    except ValueError:
        seed = 0
    pid = a.pid.upper()
    try:
        mod = importlib.import_module(f"props.{pid.lower()}")
    except ModuleNotFoundError as e:
        print(f"no check for {pid}: {e}")
        return 2
    ctx = common.Ctx(pid, a.tier, seed, replay=a.replay)
    try:
        if a.replay:
            if hasattr(mod, 'replay'):
                return mod.replay(ctx, a.replay)
            return common.default_replay(mod, ctx, a.replay)
        return common.main_pipeline(mod, ctx)
    except Exception:
        traceback.print_exc()
        print(f"INFRASTRUCTURE-ERROR property={pid}")
        return 2


if __name__ == "__main__":
    sys.exit(main())
