"""Stub of exafmm.helmholtz (exact direct summation, complex wavenumber)."""

from ._direct import init_sources, init_targets, setup, update_charges, clear_values, evaluate, _Fmm  # noqa: F401


def HelmholtzFmm(p, ncrit, wavenumber, filename=None, **kwargs):
    """Create the Helmholtz session object."""
    return _Fmm("helmholtz", p, ncrit, complex(wavenumber), filename)
