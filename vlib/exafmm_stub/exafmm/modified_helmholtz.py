"""Stub of exafmm.modified_helmholtz (exact direct summation)."""

from ._direct import init_sources, init_targets, setup, update_charges, clear_values, evaluate, _Fmm  # noqa: F401


def ModifiedHelmholtzFmm(p, ncrit, wavenumber, filename=None, **kwargs):
    """Create the modified Helmholtz session object."""
    return _Fmm("modified_helmholtz", p, ncrit, wavenumber, filename)
