"""Exact direct summation standing in for the exafmm-t extension (verification stub).

The conventions are deduced from how ``bempp_cl/api/fmm/exafmm.py`` and ``fmm_assembler.py`` consume the
result (and are the documented ones of exafmm-t):

* ``evaluate`` returns an ``(ntargets, 4)`` array; column 0 is ``sum_j G(x_i, y_j) q_j``, columns 1..3 are the
  gradient with respect to the TARGET point ``x_i`` of that sum,
* Laplace ``G = 1/(4 pi r)``, Helmholtz ``G = exp(i k r)/(4 pi r)`` with complex ``k``, modified Helmholtz
  ``G = exp(-w r)/(4 pi r)``, ``r = |x - y|``,
* coincident source/target points (``r == 0``) contribute nothing (the code subtracts a near-field matrix whose
  ``r == 0`` entries are zero).

Nothing here imports bempp_cl: the kernels are written independently of ``bempp_cl/api/fmm/helpers.py``.
"""

import numpy as _np

_INV4PI = 1.0 / (4.0 * _np.pi)
_CACHE_LIMIT = 3_000_000  # ntargets * nsources up to which the 4 kernel matrices are kept
_CHUNK = 1_500_000


class _Fmm(object):
    def __init__(self, mode, p, ncrit, wavenumber=None, filename=None):
        self.mode = mode
        self.p = p
        self.ncrit = ncrit
        self.wavenumber = wavenumber
        self.filename = filename


class _Tree(object):
    def __init__(self, sources, targets):
        self.sources = sources
        self.targets = targets
        self.charges = _np.zeros(len(sources), dtype=_np.float64)
        self.matrices = None


def init_sources(points, charges):
    pts = _np.array(points, dtype=_np.float64).reshape(-1, 3)
    return (pts, _np.array(charges).ravel())


def init_targets(points):
    return _np.array(points, dtype=_np.float64).reshape(-1, 3)


def setup(sources, targets, fmm):
    tree = _Tree(sources[0], targets)
    tree.charges = sources[1]
    return tree


def update_charges(tree, charges):
    charges = _np.asarray(charges).ravel()
    if charges.shape[0] != tree.sources.shape[0]:
        raise ValueError("update_charges: %d charges for %d sources" % (charges.shape[0], tree.sources.shape[0]))
    tree.charges = charges.copy()


def clear_values(tree):
    return None


def _kernel_block(fmm, targets, sources):
    """Return (4, nt, ns): G and the three components of grad_x G."""
    diff = targets[:, None, :] - sources[None, :, :]
    r = _np.sqrt(_np.einsum("ijk,ijk->ij", diff, diff))
    zero = r == 0
    rs = _np.where(zero, 1.0, r)
    if fmm.mode == "laplace":
        g = _INV4PI / rs
        radial = -g / rs  # dG/dr
    elif fmm.mode == "helmholtz":
        k = complex(fmm.wavenumber)
        g = _INV4PI * _np.exp(1j * k * rs) / rs
        radial = g * (1j * k - 1.0 / rs)
    elif fmm.mode == "modified_helmholtz":
        w = float(_np.real(fmm.wavenumber))
        g = _INV4PI * _np.exp(-w * rs) / rs
        radial = g * (-w - 1.0 / rs)
    else:
        raise ValueError(fmm.mode)
    g = _np.where(zero, 0, g)
    radial = _np.where(zero, 0, radial / rs)
    out = _np.empty((4,) + r.shape, dtype=g.dtype)
    out[0] = g
    for i in range(3):
        out[1 + i] = radial * diff[:, :, i]
    return out


def evaluate(tree, fmm):
    nt, ns = tree.targets.shape[0], tree.sources.shape[0]
    q = tree.charges
    if nt * ns <= _CACHE_LIMIT:
        if tree.matrices is None:
            tree.matrices = _kernel_block(fmm, tree.targets, tree.sources)
        return _np.ascontiguousarray((tree.matrices @ q).T)
    dtype = _np.result_type(q.dtype, _np.complex128 if fmm.mode == "helmholtz" else _np.float64)
    res = _np.zeros((nt, 4), dtype=dtype)
    step = max(1, _CHUNK // max(ns, 1))
    for start in range(0, nt, step):
        blk = _kernel_block(fmm, tree.targets[start : start + step], tree.sources)
        res[start : start + step, :] = (blk @ q).T
    return res
