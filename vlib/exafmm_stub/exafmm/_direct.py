"""Exact direct summation standing in for the exafmm-t extension (verification stub).

The conventions are deduced from how ``bempp_cl/api/fmm/exafmm.py`` and ``fmm_assembler.py`` consume the
result (and are the documented ones of exafmm-t):

* ``evaluate`` returns an ``(ntargets, 4)`` array; column 0 is ``sum_j G(x_i, y_j) q_j``, columns 1..3 are the
  gradient with respect to the TARGET point ``x_i`` of that sum,
* Laplace ``G = 1/(4 pi r)``, Helmholtz ``G = exp(i k r)/(4 pi r)`` with complex ``k``, modified Helmholtz
  ``G = exp(-w r)/(4 pi r)``, ``r = |x - y|``,
* coincident source/target points (``r == 0``) contribute nothing (the code subtracts a near-field matrix whose
  ``r == 0`` entries are zero).

Nothing here imports bempp_cl: the kernels are written independently of ``bempp_cl/api/fmm/helpers.py``.
"""

import numpy as _np

_INV4PI = 1.0 / (4.0 * _np.pi)
_CACHE_LIMIT = 3_000_000  # ntargets * nsources up to which the 4 kernel matrices are kept
_CHUNK = 600_000


class _Fmm(object):
    def __init__(self, mode, p, ncrit, wavenumber=None, filename=None):
        self.mode = mode
        self.p = p
        self.ncrit = ncrit
        self.wavenumber = wavenumber
        self.filename = filename


class _Tree(object):
    def __init__(self, sources, targets):
        self.sources = sources
        self.targets = targets
        self.charges = _np.zeros(len(sources), dtype=_np.float64)
        self.matrices = None


def init_sources(points, charges):
    pts = _np.array(points, dtype=_np.float64).reshape(-1, 3)
    return (pts, _np.array(charges).ravel())


def init_targets(points):
    return _np.array(points, dtype=_np.float64).reshape(-1, 3)


def setup(sources, targets, fmm):
    tree = _Tree(sources[0], targets)
    tree.charges = sources[1]
    return tree


def update_charges(tree, charges):
    charges = _np.asarray(charges).ravel()
    if charges.shape[0] != tree.sources.shape[0]:
        raise ValueError("update_charges: %d charges for %d sources" % (charges.shape[0], tree.sources.shape[0]))
    tree.charges = charges.copy()


def clear_values(tree):
    return None


class _Work(object):
    """Reusable work arrays for one chunk (fresh large allocations are slow in some sandboxes)."""

    def __init__(self, rows, ns, kdtype):
        self.key = (rows, ns, _np.dtype(kdtype))
        self.d = [_np.empty((rows, ns)) for _ in range(3)]
        self.r = _np.empty((rows, ns))
        self.inv = _np.empty((rows, ns))
        self.tmp = _np.empty((rows, ns))
        self.g = _np.empty((rows, ns), dtype=kdtype)
        self.rad = _np.empty((rows, ns), dtype=kdtype)
        self.out = _np.empty((4, rows, ns), dtype=kdtype)


_WORK = [None]


def _work(rows, ns, kdtype):
    w = _WORK[0]
    if w is None or w.key != (rows, ns, _np.dtype(kdtype)):
        _WORK[0] = None
        w = _Work(rows, ns, kdtype)
        _WORK[0] = w
    return w


def _kernel_dtype(fmm):
    return _np.complex128 if fmm.mode == "helmholtz" else _np.float64


def _kernel_block(fmm, targets, sources, rows=None):
    """Return (4, nt, ns): G and the three components of grad_x G (a view into the work arrays)."""
    nt, ns = targets.shape[0], sources.shape[0]
    W = _work(max(nt, rows or nt), ns, _kernel_dtype(fmm))
    d = [a[:nt] for a in W.d]
    r, inv, tmp, g, rad, out = W.r[:nt], W.inv[:nt], W.tmp[:nt], W.g[:nt], W.rad[:nt], W.out[:, :nt]
    for i in range(3):
        _np.subtract(targets[:, None, i], sources[None, :, i], out=d[i])
    _np.multiply(d[0], d[0], out=r)
    _np.multiply(d[1], d[1], out=tmp)
    r += tmp
    _np.multiply(d[2], d[2], out=tmp)
    r += tmp
    _np.sqrt(r, out=r)
    zero = r == 0
    any_zero = bool(zero.any())
    if any_zero:
        r[zero] = 1.0
    _np.divide(1.0, r, out=inv)
    if fmm.mode == "laplace":
        _np.multiply(inv, _INV4PI, out=g)  # G = 1/(4 pi r)
        _np.multiply(g, inv, out=rad)
        _np.negative(rad, out=rad)  # dG/dr = -G/r
    elif fmm.mode == "helmholtz":
        k = complex(fmm.wavenumber)
        _np.multiply(r, 1j * k, out=g)
        _np.exp(g, out=g)
        g *= inv
        g *= _INV4PI  # G = exp(i k r)/(4 pi r)
        _np.subtract(1j * k, inv, out=rad)
        rad *= g  # dG/dr = G (i k - 1/r)
    elif fmm.mode == "modified_helmholtz":
        w = float(_np.real(fmm.wavenumber))
        _np.multiply(r, -w, out=g)
        _np.exp(g, out=g)
        g *= inv
        g *= _INV4PI  # G = exp(-w r)/(4 pi r)
        _np.add(inv, w, out=rad)
        rad *= g
        _np.negative(rad, out=rad)  # dG/dr = -G (w + 1/r)
    else:
        raise ValueError(fmm.mode)
    rad *= inv  # (dG/dr)/r
    if any_zero:
        g[zero] = 0
        rad[zero] = 0
    out[0] = g
    for i in range(3):
        _np.multiply(rad, d[i], out=out[1 + i])  # grad_x G = (dG/dr) (x - y)/r
    return out


def evaluate(tree, fmm):
    nt, ns = tree.targets.shape[0], tree.sources.shape[0]
    q = tree.charges
    if nt * ns <= _CACHE_LIMIT:
        if tree.matrices is None:
            tree.matrices = _kernel_block(fmm, tree.targets, tree.sources).copy()
        return _np.ascontiguousarray(_np.einsum("ijk,k->ji", tree.matrices, q))
    dtype = _np.result_type(q.dtype, _kernel_dtype(fmm))
    res = _np.zeros((nt, 4), dtype=dtype)
    step = max(1, _CHUNK // max(ns, 1))
    for start in range(0, nt, step):
        blk = _kernel_block(fmm, tree.targets[start : start + step], tree.sources, rows=step)
        res[start : start + step, :] = _np.einsum("ijk,k->ji", blk, q)
    return res
