"""Stub of exafmm.laplace (exact direct summation)."""

from ._direct import init_sources, init_targets, setup, update_charges, clear_values, evaluate, _Fmm  # noqa: F401


def LaplaceFmm(p, ncrit, filename=None, **kwargs):
    """Create the Laplace session object."""
    return _Fmm("laplace", p, ncrit, None, filename)
