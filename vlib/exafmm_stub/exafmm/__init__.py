"""Pure NumPy stand-in for the exafmm-t Python extension: exact direct summation (verification only)."""

from . import laplace, helmholtz, modified_helmholtz  # noqa: F401

IS_VERIFICATION_STUB = True
