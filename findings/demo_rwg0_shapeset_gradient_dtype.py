"""Observation (not tied to a property obligation): `bempp_cl.api.space.shapesets._rwg0_shapeset_gradient` cannot be compiled.

It allocates `_np.zeros((2, 2, 3, npoints), dtype=_np.dtype)` (the CLASS numpy.dtype instead of the local variable
`dtype`), so the njit function raises a Numba TypingError on its first call.  It is registered as the "gradient" of the
"rwg0" shapeset but nothing in the library calls it at present (RWG spaces have no surface-gradient evaluator), so no
operator is affected; found while tracing the sparse kernels (props/asm_gen_sparse.py).

Run:  PYTHONPATH=/repo /venv/bin/python findings/demo_rwg0_shapeset_gradient_dtype.py     (prints FAILS on the current tree)
"""
import numpy as np

import bempp_cl.api.space.shapesets as sh

try:
    out = sh._rwg0_shapeset_gradient(np.array([[0.2], [0.3]]))
    print("ok", out.shape)
except Exception as e:  # numba.core.errors.TypingError
    print("FAILS:", type(e).__name__)
    raise SystemExit(1)
