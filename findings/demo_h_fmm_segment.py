"""Finding h (C17): FMM operators on a segment space equal the dense ones (exact-summation exafmm stub).

Unchanged code: scalar operators / potentials raise `ValueError: cannot assign slice of shape (0,) ...`
(space.py: map_space_to_points_impl addresses arrays sized by the support with the grid element index), Maxwell
operators and potentials are silently wrong by O(1) (fmm_assembler.py: compute_*_transform_impl write the point
rows `npts*position+q` instead of `npts*element+q`).  Patch: findings/proposed_c17.diff.
Run inside a scratch directory (bempp writes `.exafmm` into the cwd).  Exit 0 iff everything agrees to 1e-11.
"""
import os, sys, tempfile
sys.path.insert(0, "/verif")
from vlib import fmmstub, meshgen as mg
fmmstub.enable()
import numpy as np
import bempp_cl.api as api
from bempp_cl.api.operators.boundary import laplace, maxwell
from bempp_cl.api.operators import potential
os.chdir(tempfile.mkdtemp(prefix="c17demo"))
V, E = mg.octahedron()
g = api.Grid(V, E, np.array([1, 0, 0, 1, 1, 0, 0, 1], dtype=np.uint32))   # segment 1 = elements 0,3,4,7
rng = np.random.default_rng(0)
p0 = api.function_space(g, "DP", 0, segments=[1])
rwg = api.function_space(g, "RWG", 0, segments=[1], include_boundary_dofs=True)
snc = api.function_space(g, "SNC", 0, segments=[1], include_boundary_dofs=True)
print("support_elements:", p0.support_elements)
ok = True


def rel(a, b):
    return float(np.linalg.norm(a - b) / np.linalg.norm(a))


def run(name, f):
    global ok
    try:
        r = f()
        print(f"{name}: ||fmm - dense|| / ||dense|| = {r:.3e}")
        ok &= r < 1e-11
    except Exception as e:  # noqa
        print(f"{name}: assembler='fmm' raises {type(e).__name__}: {e}")
        ok = False


def boundary(mk, dom, dual):
    x = rng.standard_normal(dom.global_dof_count)
    return rel(mk(dom, dual, dual, assembler="dense").weak_form() @ x, mk(dom, dual, dual, assembler="fmm").weak_form() @ x)


pts = np.array([[2.0, 0.3, 0.1], [1.5, -2.0, 0.4]]).T


def pot(mk, sp):
    f = api.GridFunction(sp, coefficients=rng.standard_normal(sp.global_dof_count))
    return rel(mk(sp, pts, assembler="dense").evaluate(f), mk(sp, pts, assembler="fmm").evaluate(f))


run("Laplace single layer DP0", lambda: boundary(laplace.single_layer, p0, p0))
run("Maxwell electric field RWG/SNC", lambda: boundary(lambda d, r, t, assembler: maxwell.electric_field(d, r, t, 1.1, assembler=assembler), rwg, snc))
run("Maxwell magnetic field RWG/SNC", lambda: boundary(lambda d, r, t, assembler: maxwell.magnetic_field(d, r, t, 1.1, assembler=assembler), rwg, snc))
run("Laplace single layer potential", lambda: pot(potential.laplace.single_layer, p0))
run("Maxwell electric field potential", lambda: pot(lambda s, p, assembler: potential.maxwell.electric_field(s, p, 1.1, assembler=assembler), rwg))
sys.exit(0 if ok else 1)
