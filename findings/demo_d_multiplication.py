"""Finding d (C13): MultiplicationOperator by the constant function 1 on a segment space is the mass matrix."""
import sys, random
sys.path.insert(0, "/verif")
import numpy as np
import bempp_cl.api as api
from vlib import meshgen as mg
from bempp_cl.api.assembly.boundary_operator import MultiplicationOperator
rng = random.Random(3)
V, E = mg.cube(); V = mg.perturb(V, 0.15, rng)
D = np.array([0] * 4 + [1] * 8, dtype=np.uint32)
g = api.Grid(V, E, D)
sp = api.function_space(g, "DP", 0, segments=[1])
one = api.GridFunction(sp, coefficients=np.ones(sp.global_dof_count))
M = MultiplicationOperator(one, sp, sp, sp).weak_form().to_sparse().toarray()
I = api.operators.boundary.sparse.identity(sp, sp, sp).weak_form().to_sparse().toarray()
err = abs(M - I).max()
print("max |Mult(1) - mass| =", err)
ok = err < 1e-13
if "inner" in sys.argv:
    rw = api.function_space(g, "RWG", 0)
    f = api.GridFunction(rw, coefficients=np.arange(1.0, rw.global_dof_count + 1))
    p0 = api.function_space(g, "DP", 0)
    A = MultiplicationOperator(f, rw, p0, p0, mode="inner").weak_form().to_sparse().toarray()
    print("inner mode shape", A.shape)
sys.exit(0 if ok else 1)
