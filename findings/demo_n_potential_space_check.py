"""Finding (C14): a potential operator applied to a grid function of an incompatible space must be rejected."""
import sys
sys.path.insert(0, "/verif")
import numpy as np
import bempp_cl.api as api
from vlib import meshgen as mg
V, E = mg.tetrahedron()
g = api.Grid(V, E)
p1 = api.function_space(g, "P", 1); dp0 = api.function_space(g, "DP", 0)
pts = np.array([[2.0, 0.1], [0.3, 3.0], [0.2, -1.0]])
PS = api.operators.potential.laplace.single_layer(dp0, pts)
f = api.GridFunction(p1, coefficients=np.array([1.0, 2, 3, 4]))
ok_f = api.GridFunction(api.function_space(g, "DP", 0), coefficients=np.array([1.0, 2, 3, 4]))
print("compatible (distinct but equal space object):", PS.evaluate(ok_f))
for op in (lambda: PS * f, lambda: PS.evaluate(f), lambda: (2 * PS) * f, lambda: (PS + PS) * f):
    try:
        r = op(); print("accepted, returned", r); sys.exit(1)
    except ValueError as e:
        pass
print("rejected"); sys.exit(0)
