"""Finding (C14): a blocked operator applied to grid functions from the wrong spaces must be rejected."""
import sys
sys.path.insert(0, "/verif")
import numpy as np
import bempp_cl.api as api
from vlib import meshgen as mg
V, E = mg.tetrahedron()
g = api.Grid(V, E)
p1 = api.function_space(g, "P", 1); dp0 = api.function_space(g, "DP", 0)
ident = api.operators.boundary.sparse.identity
K = api.BlockedOperator(2, 2)
K[0, 0] = ident(p1, p1, p1); K[1, 1] = ident(dp0, dp0, dp0)
a = api.GridFunction(dp0, coefficients=np.array([1.0, 2, 3, 4])); b = api.GridFunction(p1, coefficients=np.array([1.0, 2, 3, 4]))
r = K * [b, a]
print("well-typed ok:", r[0].coefficients, r[1].coefficients)
try:
    r = K * [a, b]; print("accepted wrong spaces"); sys.exit(1)
except ValueError:
    print("rejected"); sys.exit(0)
