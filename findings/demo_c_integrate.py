"""Finding c (C13): GridFunction.integrate for a space with signed multipliers (RWG) vs direct quadrature."""
import sys, random
sys.path.insert(0, "/verif")
import numpy as np
import bempp_cl.api as api
from vlib import meshgen as mg
from bempp_cl.api.integration.triangle_gauss import rule
rng = random.Random(2)
V, E = mg.octahedron(); V = mg.perturb(V, 0.2, rng)
g = api.Grid(V, E)
sp = api.function_space(g, "RWG", 0)
c = np.array([rng.uniform(-1, 1) for _ in range(sp.global_dof_count)])
f = api.GridFunction(sp, coefficients=c)
got = f.integrate()
pts, w = rule(4)
ref = np.zeros(3)
for e in range(g.number_of_elements):
    ref += (f.evaluate(e, pts) * w).sum(axis=1) * g.integration_elements[e]
print("integrate:", got.ravel(), "direct:", ref)
ok = np.allclose(np.ravel(got), ref, atol=1e-13)
sys.exit(0 if ok else 1)
