"""Finding b (C09/C10): DUAL1 basis nodal values: 1 at own barycentre, 1/2 at edge midpoints; partition of unity."""
import sys, random
sys.path.insert(0, "/verif")
import numpy as np
import bempp_cl.api as api
from vlib import meshgen as mg
rng = random.Random(1)
V, E = mg.octahedron(); V = mg.perturb(V, 0.2, rng)
g = api.Grid(V, E)
sp = api.function_space(g, "DUAL", 1)
T = sp.dof_transformation.toarray()  # rows: 18*e + 3*s + k
ok = True
# row sums = sum of all basis functions at each barycentric node: must be 1 (closed grid)
rs = T.sum(axis=1)
print("row sums min/max", rs.min(), rs.max())
ok &= np.allclose(rs, 1)
# basis function j (element j) has value 1 at the barycentre nodes of element j
for j in range(g.number_of_elements):
    for n in [2, 4, 8, 10, 14, 16]:
        ok &= abs(T[18 * j + n, j] - 1) < 1e-14
print("ok" if ok else "DUAL1 nodal values wrong")
sys.exit(0 if ok else 1)
