"""Finding i (C18): the FMM cache keys omit the quadrature order and the FMM evaluators read GLOBAL_PARAMETERS.

Runs with the exact-summation exafmm stub (vlib/exafmm_stub).  Exit 0 = all three situations give the dense result,
exit 1 = at least one fails (tree as found: all three)."""
import sys
sys.path.insert(0, "/verif")
import numpy as np
from vlib import fmmstub, meshgen as mg
fmmstub.enable()
import bempp_cl.api as api
from bempp_cl.api.utils.parameters import DefaultParameters

V, E = mg.octahedron()
g = api.Grid(V, E)
sp = api.function_space(g, "DP", 0)
L = api.operators.boundary.laplace
x = np.arange(1.0, 9.0)
pts = np.array([[2.0, 0.1, 0.3], [0.5, 3.0, -1.0]]).T.copy()
f = api.GridFunction(sp, coefficients=x)
p6 = DefaultParameters()
p6.quadrature.regular = 6
ref6 = L.single_layer(sp, sp, sp, parameters=p6).weak_form() @ x
pot6 = api.operators.potential.laplace.single_layer(sp, pts, parameters=p6).evaluate(f)
bad = 0


def attempt(name, fun, ref):
    global bad
    try:
        err = float(np.abs(fun() - ref).max() / np.abs(ref).max())
        ok = err < 1e-12
        print(f"{name}: relative difference to dense with order 6 = {err:.2e}")
    except Exception as e:  # noqa
        ok = False
        print(f"{name}: raises {type(e).__name__}: {e}")
    bad += not ok


with fmmstub.scratch_cwd():
    # (1) two FMM operators on one grid, global order changed in between: the second reuses the order-4 interface
    L.single_layer(sp, sp, sp, assembler="fmm").weak_form() @ x
    api.GLOBAL_PARAMETERS.quadrature.regular = 6
    attempt("second FMM operator after changing the global order",
            lambda: L.single_layer(sp, sp, sp, assembler="fmm").weak_form() @ x, ref6)
    api.GLOBAL_PARAMETERS.quadrature.regular = 4
    api.clear_fmm_cache()
    # (2) explicit parameter object with order 6 under global order 4: interface of order 6, point maps of order 4
    attempt("FMM operator with an explicit parameter object",
            lambda: L.single_layer(sp, sp, sp, assembler="fmm", parameters=p6).weak_form() @ x, ref6)
    api.clear_fmm_cache()
    # (3) FMM potential with an explicit parameter object: silently evaluated with the global order
    attempt("FMM potential with an explicit parameter object",
            lambda: api.operators.potential.laplace.single_layer(sp, pts, parameters=p6, assembler="fmm").evaluate(f),
            pot6)
sys.exit(1 if bad else 0)
