"""Finding a (C10): coarse P1 function vs its barycentric representation, pointwise on every sub-triangle."""
import sys, random
sys.path.insert(0, "/verif")
import numpy as np
import bempp_cl.api as api
from vlib import meshgen as mg
rng = random.Random(1)
V, E = mg.octahedron(); V = mg.perturb(V, 0.2, rng)
g = api.Grid(V, E)
sp = api.function_space(g, "P", 1)
bs = sp.barycentric_representation()
c = np.array([rng.uniform(-1, 1) for _ in range(sp.global_dof_count)])
f = api.GridFunction(sp, coefficients=c)
fb = api.GridFunction(bs, coefficients=c)
# evaluate at centroid of each barycentric element, compare with coarse function at the same physical point
bg = g.barycentric_refinement
worst = 0
pt = np.array([[0.3], [0.25]])
for e in range(g.number_of_elements):
    for s in range(6):
        be = 6 * e + s
        vb = fb.evaluate(be, pt)[0, 0]
        x = bg.get_element(be).geometry.local2global(pt)[:, 0] if hasattr(bg.get_element(be), 'geometry') else None
        # physical point from barycentric element vertices
        vs = bg.vertices[:, bg.elements[:, be]]
        x = vs[:, 0] + (vs[:, 1] - vs[:, 0]) * pt[0, 0] + (vs[:, 2] - vs[:, 0]) * pt[1, 0]
        cv = g.vertices[:, g.elements[:, e]]
        A = np.stack([cv[:, 1] - cv[:, 0], cv[:, 2] - cv[:, 0]], axis=1)
        loc = np.linalg.lstsq(A, x - cv[:, 0], rcond=None)[0]
        vc = f.evaluate(e, loc.reshape(2, 1))[0, 0]
        worst = max(worst, abs(vb - vc))
print("max |coarse - barycentric| =", worst)
sys.exit(0 if worst < 1e-12 else 1)
