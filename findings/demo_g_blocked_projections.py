"""Finding g (C15/C14): blocked operator applied to grid functions slices the projection vector per block row by the
dual space's dof count."""
import sys, random
sys.path.insert(0, "/verif")
import numpy as np
import bempp_cl.api as api
from vlib import meshgen as mg
rng = random.Random(4)
V, E = mg.octahedron(); V = mg.perturb(V, 0.2, rng)
g = api.Grid(V, E)
p1 = api.function_space(g, "P", 1); dp0 = api.function_space(g, "DP", 0); dp1 = api.function_space(g, "DP", 1)
ident = api.operators.boundary.sparse.identity
A = api.BlockedOperator(2, 1)
A[0, 0] = ident(p1, p1, dp1)   # range P1 (6 dofs), dual DP1: 24 rows
A[1, 0] = ident(p1, p1, dp0)   # range P1, dual DP0: 8 rows
f = api.GridFunction(p1, coefficients=np.array([rng.uniform(-1, 1) for _ in range(6)]))
try:
    out = A * [f]
    w = A.weak_form() * f.coefficients
    got = np.concatenate([out[0].projections(dp1), out[1].projections(dp0)])
    err = abs(got - w).max()
    print("err", err)
    ok = err < 1e-12
except Exception as e:
    print("raises", type(e).__name__, e); ok = False
sys.exit(0 if ok else 1)
