"""Finding (C09): DUAL0 on a segment with truncate_at_segment_edge=True must be a partition of unity on its support."""
import sys
sys.path.insert(0, "/verif")
import numpy as np
import bempp_cl.api as api
from vlib import meshgen as mg
V, E = mg.cube(1)
D = np.array([0] * 6 + [3] * 6, dtype=np.uint32)
g = api.Grid(V, E, D)
ok = True
for seg in ([3], [0]):
    sp = api.function_space(g, "DUAL", 0, segments=seg, include_boundary_dofs=True, truncate_at_segment_edge=True)
    T = sp.dof_transformation
    rs = np.asarray(T.sum(axis=1)).ravel()
    print("segments", seg, "nnz", T.nnz, "row sums min/max", rs.min(), rs.max())
    ok &= T.nnz > 0 and np.allclose(rs, 1)
sys.exit(0 if ok else 1)
