"""Finding (C13): MultiplicationOperator(mode="component") with vector-valued spaces multiplies component-wise."""
import sys
sys.path.insert(0, "/verif")
import numpy as np
import bempp_cl.api as api
from bempp_cl.api.assembly.boundary_operator import MultiplicationOperator
from bempp_cl.api.integration.triangle_gauss import rule
V = np.array([[0, 0, 0], [1, 0, 0], [0, 1, 0], [1.2, 1.1, 0.3]], float).T
E = np.array([[0, 1, 2], [1, 3, 2]], dtype=np.uint32).T
g = api.Grid(V, E)
rw = api.function_space(g, "RWG", 0, include_boundary_dofs=True)
f = api.GridFunction(rw, coefficients=np.arange(1.0, rw.global_dof_count + 1))
A = MultiplicationOperator(f, rw, rw, rw, mode="component").weak_form().to_sparse().toarray()
pts, w = rule(6)
n = rw.global_dof_count
ref = np.zeros((n, n))
for e in range(g.number_of_elements):
    vals = rw.evaluate(e, pts)            # (3, nshape, npts) incl. multipliers
    fv = f.evaluate(e, pts)               # (3, npts)
    for i in range(3):
        for j in range(3):
            ref[rw.local2global[e, i], rw.local2global[e, j]] += np.sum(
                np.sum(vals[:, i, :] * fv * vals[:, j, :], axis=0) * w) * g.integration_elements[e]
err = abs(A - ref).max() / abs(ref).max()
print("relative deviation from the exact component-wise product matrix:", err)
sys.exit(0 if err < 1e-12 else 1)
