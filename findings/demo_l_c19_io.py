"""Finding l (C19): (1) an all-zero domain index array comes back as all ones after a .msh export/import round trip;
(2) export of complex element data raises (the 'real'/'imag' arrays are not wrapped like the real 'data' array)."""
import os, shutil, sys, tempfile
import numpy as np
import bempp_cl.api as api
import meshio
V = np.array([[0, 0, 0], [1, 0, 0], [0, 1, 0], [1, 1, 0]], float).T
E = np.array([[0, 1, 2], [1, 3, 2]], np.uint32).T
tmp = tempfile.mkdtemp(prefix="c19-demo-")
ok = True
try:
    for D in ([0, 0], [0, 7]):
        for binary in (True, False):
            g = api.Grid(V, E, np.array(D, np.uint32))
            fn = os.path.join(tmp, "g.msh")
            api.export(fn, grid=g, write_binary=binary)
            got = api.import_grid(fn).domain_indices.tolist()
            print(f"(1) domain indices {D} binary={binary}: re-imported {got}", "" if got == D else "  <-- differs")
            ok = ok and got == D
    g = api.Grid(V, E, np.array([0, 7], np.uint32))
    f = api.GridFunction(api.function_space(g, "DP", 0), coefficients=np.array([1 + 2j, 3 + 4j]))
    for dt in ("node", "element"):
        fn = os.path.join(tmp, "f.msh")
        try:
            api.export(fn, grid_function=f, data_type=dt)
            m = meshio.read(fn)
            d = m.point_data if dt == "node" else {k: v[0] for k, v in m.cell_data.items()}
            ref = f.evaluate_on_vertices() if dt == "node" else f.evaluate_on_element_centers()
            good = np.array_equal(d["real"].ravel(), ref.real.ravel()) and np.array_equal(d["imag"].ravel(), ref.imag.ravel())
            print(f"(2) complex {dt} data: written, equals evaluation: {good}")
            ok = ok and good
        except Exception as e:
            print(f"(2) complex {dt} data: raises {type(e).__name__}: {e}  <-- not exported")
            ok = False
finally:
    shutil.rmtree(tmp, ignore_errors=True)
sys.exit(0 if ok else 1)
