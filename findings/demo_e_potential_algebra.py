"""Finding e (C14): sums / differences / scaled sums of potential operators."""
import sys, random
sys.path.insert(0, "/verif")
import numpy as np
import bempp_cl.api as api
from vlib import meshgen as mg
V, E = mg.octahedron()
g = api.Grid(V, E)
sp = api.function_space(g, "DP", 0)
pts = np.array([[2.0, 0.1], [0.3, 3.0], [0.2, -1.0]])
S = api.operators.potential.laplace.single_layer(sp, pts)
D = api.operators.potential.laplace.double_layer(sp, pts)
f = api.GridFunction(sp, coefficients=np.arange(1.0, 9.0))
ref = S.evaluate(f) - 2.0 * D.evaluate(f)
try:
    got = ((S - 2.0 * D) + (3 * S) - 3 * S) * f
except Exception as e:
    print("raises", type(e).__name__, e); sys.exit(1)
print("err", abs(got - ref).max())
sys.exit(0 if abs(got - ref).max() < 1e-13 else 1)
