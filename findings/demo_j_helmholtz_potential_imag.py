"""Finding j (C05): Helmholtz potentials with purely imaginary wavenumber i*w equal the modified Helmholtz ones."""
import sys
sys.path.insert(0, "/verif")
import numpy as np
import bempp_cl.api as api
from vlib import meshgen as mg
V, E = mg.octahedron()
g = api.Grid(V, E)
sp = api.function_space(g, "DP", 0)
pts = np.array([[2.0, 0.1], [0.3, 3.0], [0.2, -1.0]])
f = api.GridFunction(sp, coefficients=np.arange(1.0, 9.0))
ok = True
for name in ("single_layer", "double_layer"):
    try:
        a = getattr(api.operators.potential.helmholtz, name)(sp, pts, 0.7j).evaluate(f)
        b = getattr(api.operators.potential.modified_helmholtz, name)(sp, pts, 0.7).evaluate(f)
        c = getattr(api.operators.potential.helmholtz, name)(sp, pts, 1e-9 + 0.7j).evaluate(f)
        print(name, abs(a - b).max(), abs(c - b).max())
        ok &= abs(a - b).max() < 1e-13 and abs(c - b).max() < 1e-7
    except Exception as e:
        print(name, "raises", type(e).__name__, e); ok = False
sys.exit(0 if ok else 1)
